package main

// c11.go - SetValueForPath / Remove / RenameKey versus Mxj.Model.Mutate and an independent
// "copy with exactly that entry set / removed / moved" oracle.

import (
	"encoding/json"
	"fmt"
	"strings"

	mxj "github.com/clbanning/mxj/v2"
)

func mutErrKind(err error) string {
	s := err.Error()
	switch {
	case strings.HasPrefix(s, "RenameKey: path not found"):
		return "renameNotFound"
	case strings.HasPrefix(s, "RenameKey: key already exists"):
		return "renameExists"
	case strings.HasPrefix(s, "prevValueByPath"):
		return "prevNotFound"
	case strings.HasPrefix(s, "SetValueForPath: parent is not a map"):
		return "notAMap"
	}
	return errKindOf(err)
}

// mapDescent follows segs through nested maps only; returns the map holding the last key.
func mapDescent(m map[string]interface{}, segs []string) (map[string]interface{}, bool) {
	cur := m
	for _, s := range segs[:len(segs)-1] {
		next, ok := cur[s].(map[string]interface{})
		if !ok {
			return nil, false
		}
		cur = next
	}
	return cur, true
}

func segsSafe(segs []string) bool {
	for _, s := range segs {
		if s == "" || strings.ContainsAny(s, "[*") {
			return false
		}
	}
	return true
}

func c11Exec(op string) string {
	c, name := newCur(op)
	m := c.mapVal()
	var value interface{}
	if name == "setv" {
		value = c.val()
	}
	path := c.str()
	newName := ""
	if name == "rename" {
		newName = c.str()
	}
	if c.err != nil {
		return "bad-op " + c.err.Error()
	}
	before := deepCopy(m).(map[string]interface{})
	expect := deepCopy(m).(map[string]interface{})
	segs := strings.Split(path, ".")
	mv := mxj.Map(m)
	var err error
	note := ""
	switch name {
	case "setv":
		err = mv.SetValueForPath(value, path)
		if holder, ok := mapDescent(expect, segs); ok && segsSafe(segs) {
			holder[segs[len(segs)-1]] = value
			if err != nil {
				note = "set through nested maps failed: " + err.Error()
			} else if !deepEq(expect, m) {
				note = "set changed something else than the addressed entry"
			} else if _, isList := value.([]interface{}); !isList {
				got, gerr := mv.ValueForPath(path)
				if gerr != nil || !deepEq(got, value) {
					note = fmt.Sprintf("ValueForPath after set returns %v (%v)", got, gerr)
				}
			}
		}
	case "remove":
		err = mv.Remove(path)
		if holder, ok := mapDescent(expect, segs); ok {
			last := segs[len(segs)-1]
			if _, present := holder[last]; present {
				delete(holder, last)
				if err != nil {
					note = "remove of an existing nested-map path failed: " + err.Error()
				} else if !deepEq(expect, m) {
					note = "remove changed something else than the addressed entry"
				} else if ok2, _ := mv.Exists(path); ok2 && segsSafe(segs) {
					note = "path still exists after Remove"
				}
			} else if err == nil {
				note = "remove of a missing path reported success"
			}
		} else if err == nil {
			// a parent segment is missing or is not a map: the path does not exist
			note = "remove through a missing or non-map parent reported success"
		}
	case "rename":
		err = mv.RenameKey(path, newName)
		if holder, ok := mapDescent(expect, segs); ok && segsSafe(segs) && segsSafe([]string{newName}) && !strings.Contains(newName, ".") {
			last := segs[len(segs)-1]
			v, present := holder[last]
			_, sibling := holder[newName]
			switch {
			case present && sibling:
				if err == nil {
					note = "RenameKey overwrote an existing sibling"
				}
			case present && !sibling:
				holder[newName] = v
				delete(holder, last)
				if err != nil {
					note = "rename to a fresh name failed: " + err.Error()
				} else if !deepEq(expect, m) {
					note = "rename changed something else than moving the entry"
				}
			case !present:
				if err == nil {
					note = "rename of a missing key reported success"
				}
			}
		} else if !ok && err == nil {
			note = "rename through a missing or non-map parent reported success"
		}
	}
	if err != nil && !deepEq(before, m) && note == "" {
		note = "the operation failed but modified the Map"
	}
	if name == "setv" && err == nil && note == "" && segsSafe(segs) && !deepEq(before, m) {
		// whatever the parent is: a set that reports success and did something makes the path yield
		// the new value (a null parent is the documented no-op: success, nothing changes)
		if _, isList := value.([]interface{}); !isList {
			got, gerr := mv.ValueForPath(path)
			if gerr != nil || !deepEq(got, value) {
				note = fmt.Sprintf("SetValueForPath reported success but ValueForPath returns %v (%v)", clip(fmt.Sprint(got), 80), gerr)
			}
		}
	}
	after := enc(m)
	if err != nil {
		return "err " + mutErrKind(err) + " " + after + " | " + note
	}
	return "ok " + after + " | " + note
}

func c11Describe(op string) string {
	c, name := newCur(op)
	m := c.mapVal()
	switch name {
	case "setv":
		v := c.val()
		return fmt.Sprintf("SetValueForPath map=%s value=%s path=%q", jsonOf(m), jsonOf(v), c.str())
	case "remove":
		return fmt.Sprintf("Remove map=%s path=%q", jsonOf(m), c.str())
	case "rename":
		p := c.str()
		return fmt.Sprintf("RenameKey map=%s path=%q newName=%q", jsonOf(m), p, c.str())
	}
	return op
}

func c11Judge(op, impl, model string) Verdict {
	_, name := newCur(op)
	v := Verdict{Tags: []string{name}}
	if strings.HasPrefix(model, "skip-") {
		v.Skipped, v.CorrOK = true, true
		return v
	}
	if strings.HasPrefix(impl, "panic") {
		v.OracleFail = name + " panicked: " + impl
		v.Sig = name + ":panic"
		return v
	}
	ip := splitModel(impl)
	if model == "na" {
		v.Skipped, v.CorrOK = true, true
	} else {
		v.CorrOK = ip[0] == model
	}
	v.Nontrivial = strings.HasPrefix(ip[0], "ok")
	if strings.HasPrefix(ip[0], "err") {
		v.Tags = append(v.Tags, name+":"+strings.Join(strings.Fields(ip[0])[:2], " "))
	} else {
		v.Tags = append(v.Tags, name+":ok")
	}
	if len(ip) > 1 && ip[1] != "" {
		v.OracleFail = name + ": " + ip[1]
		v.Sig = name + ":" + strings.ReplaceAll(strings.SplitN(ip[1], ":", 2)[0], " ", "-")
	}
	return v
}

// nestedMapPath derives a path through nested maps: existing mostly, sometimes missing,
// ending at scalars, maps or lists.
func nestedMapPath(r *Rng, m map[string]interface{}) string {
	var segs []string
	cur := m
	for {
		ks := sortedKeys(cur)
		if len(ks) == 0 || r.P(8) {
			segs = append(segs, r.Pick([]string{"zz", "a", "k"}))
			break
		}
		k := ks[r.Intn(len(ks))]
		segs = append(segs, k)
		next, ok := cur[k].(map[string]interface{})
		if !ok || r.P(35) {
			if r.P(10) {
				segs = append(segs, r.Pick(plainKeys))
			}
			break
		}
		cur = next
	}
	return strings.Join(segs, ".")
}

func c11Gen(r *Rng, n int) []string {
	var ops []string
	for len(ops) < n {
		cfg := jsonShape
		cfg.EmptyList = false
		cfg.MaxDepth = 5
		if r.P(30) {
			cfg.Keys = keyAlpha
		}
		m := r.RootMap(&cfg)
		deepPath := ""
		if r.P(6) {
			// a chain of 7..12 nested maps (path lengths around every small constant)
			n := 7 + r.Intn(6)
			var cur interface{} = map[string]interface{}{"leaf": "v", "other": "w"}
			keys := []string{"leaf"}
			for i := 0; i < n-1; i++ {
				k := r.Pick(plainKeys)
				cur = map[string]interface{}{k: cur, "sib": "s"}
				keys = append([]string{k}, keys...)
			}
			m = cur.(map[string]interface{})
			deepPath = strings.Join(keys, ".")
		}
		ms := enc(m)
		for j := 0; j < 3; j++ {
			path := nestedMapPath(r, m)
			if deepPath != "" {
				segs := strings.Split(deepPath, ".")
				path = strings.Join(segs[:len(segs)-r.Intn(3)], ".")
				if r.P(30) {
					path += "." + r.Pick([]string{"fresh", "sib"})
				}
			}
			if r.P(6) {
				path = r.DerivedPath(m, false, 4) // may go through lists / wildcards
			}
			ms := ms
			if r.P(8) {
				// a sub-document attached as a value of Go type mxj.Map: not a map for the walkers
				// ("parent that is not a map"), an opaque leaf for the model
				if m2, ok := retypeOnPath(r, m, path); ok {
					ms = enc(m2)
				}
			}
			switch r.Intn(3) {
			case 0:
				val := r.Value(&cfg, 3, false)
				if r.P(15) {
					// the value argument may have any Go type: it is stored as it is
					val = []interface{}{int(7), int(9007199254740993), int32(-3), float32(2.5), uint(18446744073709551615), int8(-8), int64(1) << 60, json.Number("1e3")}[r.Intn(8)]
				}
				ops = append(ops, fmt.Sprintf("setv %s %s %s", ms, enc(val), encStr(path)))
			case 1:
				ops = append(ops, fmt.Sprintf("remove %s %s", ms, encStr(path)))
			default:
				nn := r.Pick(cfg.Keys)
				if r.P(30) {
					nn = r.Pick([]string{"fresh", "new_name", "zz"})
				}
				ops = append(ops, fmt.Sprintf("rename %s %s %s", ms, encStr(path), encStr(nn)))
			}
		}
	}
	return ops
}

// retypeOnPath returns a copy of m in which one nested map on the way of path (not the root) has
// the Go type mxj.Map instead of map[string]interface{}.
func retypeOnPath(r *Rng, m map[string]interface{}, path string) (map[string]interface{}, bool) {
	c := deepCopy(m).(map[string]interface{})
	segs := strings.Split(path, ".")
	type slot struct {
		parent map[string]interface{}
		key    string
	}
	var slots []slot
	cur := c
	for _, sg := range segs {
		nx, ok := cur[sg].(map[string]interface{})
		if !ok {
			break
		}
		slots = append(slots, slot{cur, sg})
		cur = nx
	}
	if len(slots) == 0 {
		return nil, false
	}
	sl := slots[r.Intn(len(slots))]
	sl.parent[sl.key] = mxj.Map(sl.parent[sl.key].(map[string]interface{}))
	return c, true
}

func init() {
	register(&Prop{
		ID:        "C11",
		Ambient:   ambientQueryOpts,
		Rule:      "Maps without empty lists (depth <= 5); paths derived by descending nested maps (existing 90%, missing, ending at scalars, maps or lists; one segment or many), 6% general derived paths (through lists, wildcards); new names drawn from the key alphabet (so often an existing sibling) or fresh; non-trivial = the operation succeeded; distinct = distinct op lines",
		Gen:       c11Gen,
		Exec:      c11Exec,
		Judge:     c11Judge,
		Describe:  c11Describe,
		QuickN:    4000*2,
		ThoroughN: 200000,
	})
}
