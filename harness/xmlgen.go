package main

// xmlgen.go - XML trees in token terms, a renderer that varies the surface syntax (entity
// references, numeric references, CDATA, quote styles, namespace prefixes, comments, PIs,
// inter-element whitespace), tokenisation with the real encoding/xml, decoder options.

import (
	"bytes"
	"encoding/xml"
	"fmt"
	"io"
	"strconv"
	"strings"

	mxj "github.com/clbanning/mxj/v2"
)

type XAttr struct {
	Space, Name, Value string
	prefix            string // surface prefix ("" = none; "xmlns" for declarations)
}

type XNode struct {
	Kind        byte // 'N' element, 'T' text, 'C' comment, 'P' procinst, 'D' directive
	Space, Name string
	Attrs       []XAttr
	Kids        []*XNode
	Text        string // T: character data (unescaped); C/D: body; P: inst
	Target      string
	prefix      string
}

// ---- protocol encodings

func encAttrs(as []XAttr) string {
	var sb strings.Builder
	sb.WriteString("[ ")
	for _, a := range as {
		sb.WriteString("[ " + encStr(a.Space) + " " + encStr(a.Name) + " " + encStr(a.Value) + " ] ")
	}
	sb.WriteString("]")
	return sb.String()
}

func encNode(n *XNode) string {
	switch n.Kind {
	case 'N':
		var sb strings.Builder
		sb.WriteString("[ " + encStr("N") + " " + encStr(n.Space) + " " + encStr(n.Name) + " " + encAttrs(n.Attrs) + " [ ")
		for _, k := range n.Kids {
			sb.WriteString(encNode(k) + " ")
		}
		sb.WriteString("] ]")
		return sb.String()
	case 'T':
		return "[ " + encStr("T") + " " + encStr(n.Text) + " ]"
	case 'C':
		return "[ " + encStr("C") + " " + encStr(n.Text) + " ]"
	case 'P':
		return "[ " + encStr("P") + " " + encStr(n.Target) + " " + encStr(n.Text) + " ]"
	case 'D':
		return "[ " + encStr("D") + " " + encStr(n.Text) + " ]"
	}
	return "[ ]"
}

// tokensOf tokenises bytes with the real tokenizer the way the decoder under test does
// (raw=false: Decoder.Token, raw=true: Decoder.RawToken) and stops when the first root
// element closes or at the first error.  Returns the protocol text and "eof"/"bad".
func tokensOf(doc []byte, raw bool) (string, string) {
	d := xml.NewDecoder(bytes.NewReader(doc))
	var sb strings.Builder
	sb.WriteString("[ ")
	depth := 0
	fin := ""
	for {
		var t xml.Token
		var err error
		if raw {
			t, err = d.RawToken()
		} else {
			t, err = d.Token()
		}
		if err != nil {
			if err == io.EOF {
				fin = "eof"
			} else {
				fin = "bad"
			}
			break
		}
		switch x := t.(type) {
		case xml.StartElement:
			var as []XAttr
			for _, a := range x.Attr {
				as = append(as, XAttr{Space: a.Name.Space, Name: a.Name.Local, Value: a.Value})
			}
			sb.WriteString("[ " + encStr("S") + " " + encStr(x.Name.Space) + " " + encStr(x.Name.Local) + " " + encAttrs(as) + " ] ")
			depth++
		case xml.EndElement:
			sb.WriteString("[ " + encStr("E") + " " + encStr(x.Name.Space) + " " + encStr(x.Name.Local) + " ] ")
			depth--
		case xml.CharData:
			sb.WriteString("[ " + encStr("T") + " " + encStr(string(x)) + " ] ")
		case xml.Comment:
			sb.WriteString("[ " + encStr("C") + " " + encStr(string(x)) + " ] ")
		case xml.ProcInst:
			sb.WriteString("[ " + encStr("P") + " " + encStr(x.Target) + " " + encStr(string(x.Inst)) + " ] ")
		case xml.Directive:
			sb.WriteString("[ " + encStr("D") + " " + encStr(string(x)) + " ] ")
		}
		if depth == 0 {
			if _, ok := t.(xml.EndElement); ok {
				fin = "eof" // never reached by the decoder: it returns at the root's end tag
				break
			}
		}
	}
	sb.WriteString("]")
	return sb.String(), fin
}

// ---- rendering

func (r *Rng) renderText(s string, inAttr bool, quote byte) string {
	var sb strings.Builder
	rs := []rune(s)
	i := 0
	for i < len(rs) {
		// CDATA run (text only)
		// (also a CDATA section holding nothing but an interior blank: a white-space-only token in
		// the middle of a character-data run)
		blankInside := (rs[i] == ' ' || rs[i] == '\t' || rs[i] == '\n') && i > 0 && i < len(rs)-1
		// (very long texts are not cut into CDATA sections: the decoder - and its model -
		// re-processes the whole run on every token)
		if !inAttr && len(rs) < 4000 && (r.P(8) || (blankInside && r.P(25))) {
			n := 1 + r.Intn(6)
			if blankInside && r.P(60) {
				n = 1
			}
			j := i
			for j < len(rs) && j-i < n {
				j++
			}
			chunk := string(rs[i:j])
			if !strings.Contains(chunk, "]]>") && !strings.HasSuffix(chunk, "]") && !strings.Contains(chunk, "\r") {
				sb.WriteString("<![CDATA[" + chunk + "]]>")
				i = j
				continue
			}
		}
		c := rs[i]
		switch {
		case c == '&':
			sb.WriteString(r.Pick([]string{"&amp;", "&amp;", "&#38;", "&#x26;"}))
		case c == '<':
			sb.WriteString(r.Pick([]string{"&lt;", "&lt;", "&#60;", "&#x3C;"}))
		case c == '>':
			if inAttr || r.P(50) || (i >= 2 && rs[i-1] == ']' && rs[i-2] == ']') {
				sb.WriteString("&gt;")
			} else {
				sb.WriteString(">")
			}
		case c == '"':
			if (inAttr && quote == '"') || r.P(30) {
				sb.WriteString("&quot;")
			} else {
				sb.WriteString("\"")
			}
		case c == '\'':
			if (inAttr && quote == '\'') || r.P(30) {
				sb.WriteString("&apos;")
			} else {
				sb.WriteString("'")
			}
		case c == '\r':
			sb.WriteString("&#xD;")
		case inAttr && (c == '\n' || c == '\t'):
			sb.WriteString(fmt.Sprintf("&#%d;", c))
		case c >= 'A' && c <= 'z' && r.P(3):
			sb.WriteString(fmt.Sprintf("&#x%X;", c))
		default:
			sb.WriteRune(c)
		}
		i++
	}
	return sb.String()
}

func qname(prefix, name string) string {
	if prefix != "" {
		return prefix + ":" + name
	}
	return name
}

func (r *Rng) render(n *XNode, sb *strings.Builder) {
	switch n.Kind {
	case 'T':
		sb.WriteString(r.renderText(n.Text, false, 0))
	case 'C':
		sb.WriteString("<!--" + n.Text + "-->")
	case 'P':
		sb.WriteString("<?" + n.Target)
		if n.Text != "" {
			sb.WriteString(" " + n.Text)
		}
		sb.WriteString("?>")
	case 'D':
		sb.WriteString("<!" + n.Text + ">")
	case 'N':
		sb.WriteString("<" + qname(n.prefix, n.Name))
		for _, a := range n.Attrs {
			q := byte('"')
			if r.P(25) {
				q = '\''
			}
			sb.WriteString(r.Pick([]string{" ", " ", "  ", "\n "}) + qname(a.prefix, a.Name) + "=" + string(q) + r.renderText(a.Value, true, q) + string(q))
		}
		if len(n.Kids) == 0 && r.P(60) {
			sb.WriteString(r.Pick([]string{"/>", " />"}))
			return
		}
		sb.WriteString(">")
		for _, k := range n.Kids {
			r.render(k, sb)
		}
		sb.WriteString("</" + qname(n.prefix, n.Name) + r.Pick([]string{"", "", " "}) + ">")
	}
}

// ---- generation

type XGen struct {
	Names      []string
	AttrNames  []string
	Texts      []string
	MaxDepth   int
	MaxKids    int
	Comments   bool // comments / PIs / directives among the children
	MixedP     int  // percent: text beside child elements
	MultiTextP int  // percent: more than one non-blank text run (outside the C01 domain)
	Namespaces bool
	Blank      bool // inter-element whitespace
	SeqShape   bool // C04 domain: text alone or ahead of the child elements; <= 1 comment, PI, directive per element
}

var xmlNames = []string{"a", "b", "c", "item", "k", "A", "Item", "a-b", "x_y", "list", "n1", "a.b", "a-b-c", "X-y-Z", "br", "link", "meta", "_ref"}
var xmlAttrNames = []string{"id", "x", "a", "Type", "data-v", "k", "lang", "data-v-2", "ID"}
var xmlTexts = []string{"hello", "x<y", "R&D", "\"q\"", "it's", "]]>", "&amp;", "&#x41;", "a b", " pad ", "1", "3.5", "true", "<![CDATA[", "é", "日本", "&", "<", ">", "-5", "tRuE", "NaN", "1e3", "0x1F", "\ttab", "a&b<c>d\"e'f", "x]]", "&lt;tag&gt;", "00", "T", "f", "1e19", "18446744073709551616", "-3e25", "1000000", "1e6", "9007199254740993", "0.1", "1e-7", "a  b", "l1\nl2", "x \t y", "+12.5", "+3", "C:\\tmp\\", "a\\b", "100%", "%d%s", "12345678901234567", "1234567.8901234567", "-12345678901234567", "1.2345678901234567e-5",
	// Unicode white space that is NOT in the documented trim set (\t \r \n and the blank): it stays
	"\u00a0nbsp\u00a0", "\u2003em", "tail\u3000", "\u00a0", "\u0085x", "\u2028"}

func (r *Rng) xmlNode(g *XGen, depth int) *XNode {
	n := &XNode{Kind: 'N', Name: r.Pick(g.Names)}
	if g.Namespaces && r.P(15) {
		n.prefix = r.Pick([]string{"ns", "p"})
		n.Space = "urn:" + n.prefix
	}
	na := 0
	if r.P(45) {
		na = 1 + r.Intn(3)
	}
	used := map[string]bool{}
	for i := 0; i < na; i++ {
		an := r.Pick(g.AttrNames)
		a := XAttr{Name: an, Value: r.Pick(g.Texts)}
		if r.P(12) {
			a.Value = ""
		}
		if g.Namespaces && r.P(10) {
			a.prefix = r.Pick([]string{"ns", "p"})
			a.Space = "urn:" + a.prefix
		}
		if used[a.prefix+":"+an] {
			continue
		}
		used[a.prefix+":"+an] = true
		n.Attrs = append(n.Attrs, a)
	}
	if depth >= g.MaxDepth {
		if r.P(70) {
			n.Kids = append(n.Kids, &XNode{Kind: 'T', Text: r.elemText(g)})
		}
		return n
	}
	switch x := r.Intn(100); {
	case x < 30: // simple text
		n.Kids = append(n.Kids, &XNode{Kind: 'T', Text: r.elemText(g)})
	case x < 40: // empty
	default:
		nk := 1 + r.Intn(g.MaxKids)
		if g.SeqShape {
			// text (if any) first, then children; at most one comment / PI / directive
			if r.P(g.MixedP) {
				n.Kids = append(n.Kids, &XNode{Kind: 'T', Text: r.elemText(g)})
			}
			used := map[byte]bool{}
			for i := 0; i < nk; i++ {
				if g.Blank && r.P(30) && len(n.Kids) > 0 && n.Kids[len(n.Kids)-1].Kind != 'T' {
					n.Kids = append(n.Kids, &XNode{Kind: 'T', Text: r.Pick([]string{"\n", "\n  ", " ", "\t"})})
				}
				if g.Comments && r.P(15) {
					k := []byte{'C', 'P', 'D'}[r.Intn(3)]
					if !used[k] {
						used[k] = true
						switch k {
						case 'C':
							n.Kids = append(n.Kids, &XNode{Kind: 'C', Text: r.Pick([]string{" note ", "x", "a-b", "2024", "true", "1.5", " 7 ", " 100% done ", "%s %d"})})
						case 'P':
							n.Kids = append(n.Kids, &XNode{Kind: 'P', Target: r.Pick([]string{"pi", "target"}), Text: r.Pick([]string{"a=1", "do it", "42", "false", "href=\"my%20style.xsl\"", "mode=\"fast\" ", "a=1\t", "x  "})})
						default:
							n.Kids = append(n.Kids, &XNode{Kind: 'D', Text: r.Pick([]string{"DOCTYPE x", "ELEMENT a", "12", "true", "ENTITY % pe \"x\""})})
						}
						continue
					}
				}
				n.Kids = append(n.Kids, r.xmlNode(g, depth+1))
			}
			return n
		}
		textBudget := 0
		if r.P(g.MixedP) {
			textBudget = 1
		}
		if r.P(g.MultiTextP) {
			textBudget = 2 + r.Intn(2)
		}
		lastWasText := false
		for i := 0; i < nk; i++ {
			if g.Blank && r.P(40) && !lastWasText {
				n.Kids = append(n.Kids, &XNode{Kind: 'T', Text: r.Pick([]string{"\n", "\n  ", " ", "\t", "\n\n    "})})
				lastWasText = true
			}
			if textBudget > 0 && r.P(35) && !lastWasText {
				n.Kids = append(n.Kids, &XNode{Kind: 'T', Text: r.elemText(g)})
				textBudget--
				lastWasText = true
				continue
			}
			if g.Comments && r.P(12) {
				switch r.Intn(3) {
				case 0:
					n.Kids = append(n.Kids, &XNode{Kind: 'C', Text: r.Pick([]string{" note ", "x", "a-b", "", "2024", "true", "1.5", " 7 ", " 100% done ", "%s %d"})})
				case 1:
					n.Kids = append(n.Kids, &XNode{Kind: 'P', Target: r.Pick([]string{"pi", "target"}), Text: r.Pick([]string{"", "a=1", "do it", "42", "false", "href=\"my%20style.xsl\"", "mode=\"fast\" ", "a=1\t", "x  "})})
				default:
					n.Kids = append(n.Kids, &XNode{Kind: 'D', Text: r.Pick([]string{"DOCTYPE x", "ELEMENT a", "12", "true", "ENTITY % pe \"x\""})})
				}
				lastWasText = false
				continue
			}
			n.Kids = append(n.Kids, r.xmlNode(g, depth+1))
			lastWasText = false
		}
		if textBudget > 0 && !lastWasText && r.P(50) {
			n.Kids = append(n.Kids, &XNode{Kind: 'T', Text: r.elemText(g)})
		}
	}
	return n
}

// xmlDoc generates a root element; namespace declarations go on the root.
func (r *Rng) xmlDoc(g *XGen) *XNode {
	root := r.xmlNode(g, 0)
	if r.P(3) && r.Bool() {
		// one LARGE part: text beyond 64 KB, thousands of siblings, a long attribute value, or a
		// deep chain of elements
		name := r.Pick(g.Names)
		switch r.Intn(4) {
		case 0:
			root.Kids = append(root.Kids, &XNode{Kind: 'N', Name: name, Kids: []*XNode{{Kind: 'T', Text: r.bigString(r.bigSize())}}})
		case 1:
			for i := 0; i < 300+r.Intn(400); i++ {
				root.Kids = append(root.Kids, &XNode{Kind: 'N', Name: r.Pick([]string{name, "zz"}), Kids: []*XNode{{Kind: 'T', Text: fmt.Sprintf("w%d", i)}}})
			}
		case 2:
			root.Kids = append(root.Kids, &XNode{Kind: 'N', Name: name, Attrs: []XAttr{{Name: "big", Value: r.bigString(20000)}}})
		default:
			cur := &XNode{Kind: 'N', Name: name, Kids: []*XNode{{Kind: 'T', Text: "deep"}}}
			for i := 0; i < 40+r.Intn(40); i++ {
				cur = &XNode{Kind: 'N', Name: r.Pick([]string{"a", "b"}), Kids: []*XNode{cur}}
			}
			root.Kids = append(root.Kids, cur)
		}
	}
	if g.Namespaces {
		decl := []XAttr{}
		for _, p := range []string{"ns", "p"} {
			decl = append(decl, XAttr{Space: "xmlns", Name: p, Value: "urn:" + p, prefix: "xmlns"})
		}
		if r.P(20) {
			decl = append(decl, XAttr{Space: "", Name: "xmlns", Value: "urn:default"})
		}
		root.Attrs = append(decl, root.Attrs...)
	}
	return root
}

// ---- decoder options

type DecOpt struct {
	AttrPrefix                                    string
	Lower, Snake, AsMap, SeqNum, KeepSpace        bool
	KeyPrefix                                     string // first char of the #-keys
	EscDec                                        bool
	Cast, ToInt, ToFloat, ToBool, NanInf, SkipSet bool
	Skip                                          []string
}

func defaultDecOpt() DecOpt {
	return DecOpt{AttrPrefix: "-", KeyPrefix: "#", ToFloat: true, ToBool: true}
}

func (o DecOpt) textK() string { return o.KeyPrefix + "text" }

func (o DecOpt) enc() string {
	return fmt.Sprintf("%s %d %d %d %d %d %s %d %d %d %d %d %d %d %s",
		encStr(o.AttrPrefix), b2i(o.Lower), b2i(o.Snake), b2i(o.AsMap), b2i(o.SeqNum), b2i(o.KeepSpace),
		encStr(o.textK()), b2i(o.EscDec), b2i(o.Cast), b2i(o.ToInt), b2i(o.ToFloat), b2i(o.ToBool), b2i(o.NanInf),
		b2i(o.SkipSet), encStrList(o.Skip))
}

func (c *cur) decOpt() DecOpt {
	var o DecOpt
	o.AttrPrefix = c.str()
	o.Lower, o.Snake, o.AsMap, o.SeqNum, o.KeepSpace = c.boolean(), c.boolean(), c.boolean(), c.boolean(), c.boolean()
	tk := c.str()
	if len(tk) > 0 {
		o.KeyPrefix = tk[:1]
	}
	o.EscDec = c.boolean()
	o.Cast, o.ToInt, o.ToFloat, o.ToBool, o.NanInf = c.boolean(), c.boolean(), c.boolean(), c.boolean(), c.boolean()
	o.SkipSet = c.boolean()
	o.Skip = c.strList()
	return o
}

// viaHistory brings a boolean option (known to be at its default `def`) to `want` through one of
// three call histories, so that the argument-less forms of the setters are exercised by every
// property that sets options: explicit argument; toggle form (from the default, or after the
// explicit opposite); or leaving the default alone.
func viaHistory(set func(...bool), want, def bool, h int) {
	switch h % 3 {
	case 0:
		set(want)
	case 1:
		if want != def {
			set()
		} else {
			set(!def)
			set()
		}
	default:
		if want != def {
			set(want)
		}
	}
}

// apply sets the options through the real setters (resetOptions restores them afterwards).
func (o DecOpt) apply() {
	h := 0
	for _, ch := range o.enc() {
		h = (h*31 + int(ch)) & 0xffff
	}
	mxj.SetAttrPrefix(o.AttrPrefix)
	viaHistory(mxj.CoerceKeysToLower, o.Lower, false, h)
	viaHistory(mxj.CoerceKeysToSnakeCase, o.Snake, false, h/3)
	viaHistory(mxj.DecodeSimpleValuesAsMap, o.AsMap, false, h/9)
	viaHistory(mxj.IncludeTagSeqNum, o.SeqNum, false, h/27)
	// DisableTrimWhiteSpace() without argument means "true", it is not a toggle
	if o.KeepSpace && h%2 == 1 {
		mxj.DisableTrimWhiteSpace()
	} else {
		mxj.DisableTrimWhiteSpace(o.KeepSpace)
	}
	if o.KeyPrefix != "" && o.KeyPrefix != "#" {
		mxj.SetGlobalKeyMapPrefix(o.KeyPrefix)
	}
	viaHistory(mxj.XMLEscapeCharsDecoder, o.EscDec, false, h/81)
	viaHistory(mxj.CastValuesToInt, o.ToInt, false, h/243)
	viaHistory(mxj.CastValuesToFloat, o.ToFloat, true, h/729)
	viaHistory(mxj.CastValuesToBool, o.ToBool, true, h/2187)
	viaHistory(mxj.CastNanInf, o.NanInf, false, h/6561)
	if o.SkipSet {
		set := map[string]bool{}
		for _, s := range o.Skip {
			set[s] = true
		}
		mxj.SetCheckTagToSkipFunc(func(t string) bool { return set[t] })
	}
	bystanders()
}

func (r *Rng) decOpt(castOn bool) DecOpt {
	o := defaultDecOpt()
	if r.P(30) {
		o.AttrPrefix = r.Pick([]string{"@", "attr_", "_", "", "A_", "-"})
	}
	o.Lower, o.Snake, o.AsMap, o.SeqNum, o.KeepSpace = r.P(25), r.P(25), r.P(25), r.P(20), r.P(25)
	if r.P(15) {
		o.KeyPrefix = r.Pick([]string{"%", "&", "~", "+", "_"})
	}
	o.EscDec = r.P(20)
	if castOn {
		o.Cast = r.P(70)
		o.ToInt, o.ToFloat, o.ToBool, o.NanInf = r.P(40), r.P(75), r.P(75), r.P(30)
		if r.P(25) {
			o.SkipSet = true
			fold := func(s string) string {
				if o.Lower {
					s = strings.ToLower(s)
				}
				if o.Snake {
					s = strings.ReplaceAll(s, "-", "_")
				}
				return s
			}
			// the skip function is asked about keys as they are stored (folded when folding is on)
			an := r.Pick(xmlAttrNames)
			if r.Bool() {
				an = r.Pick([]string{"Type", "ID", "data-v"}) // names that folding changes
			}
			o.Skip = []string{fold(r.Pick(xmlNames)), o.AttrPrefix + fold(an), o.textK()}[:1+r.Intn(3)]
			if r.Bool() {
				o.Skip[0], o.Skip[len(o.Skip)-1] = o.Skip[len(o.Skip)-1], o.Skip[0]
			}
		}
	}
	return o
}

// strconvTable renders the real strconv answers for every candidate leaf text.
func strconvTable(texts []string) string {
	t := map[string]interface{}{}
	for _, s := range texts {
		if _, done := t[s]; done {
			continue
		}
		row := []interface{}{nil, nil, nil}
		if v, err := strconv.ParseInt(s, 10, 64); err == nil {
			row[0] = v
		}
		if v, err := strconv.ParseUint(s, 10, 64); err == nil {
			row[1] = v
		}
		if v, err := strconv.ParseFloat(s, 64); err == nil {
			special := v != v || v > 1.797693134862315708145274237317043567981e+308 || v < -1.797693134862315708145274237317043567981e+308
			row[2] = []interface{}{v, special}
		}
		if row[0] != nil || row[1] != nil || row[2] != nil {
			t[s] = row
		}
	}
	return enc(t)
}

// leafTexts collects every string that can reach cast for a token stream: attribute values
// and character data, trimmed both ways and optionally escaped (superset is harmless).
func leafTexts(doc []byte) []string {
	d := xml.NewDecoder(bytes.NewReader(doc))
	var out []string
	run := ""
	add := func(s string) {
		for _, cut := range []string{"\t\r\b\n ", "\t\r\b\n"} {
			t := strings.Trim(s, cut)
			out = append(out, t, mxj.VerifEscapeChars(t))
		}
		out = append(out, s, mxj.VerifEscapeChars(s))
	}
	for {
		t, err := d.Token()
		if err != nil {
			break
		}
		switch x := t.(type) {
		case xml.StartElement:
			for _, a := range x.Attr {
				add(a.Value)
			}
			run = ""
		case xml.CharData:
			// text and CDATA sections arrive as separate tokens; consecutive ones are one run
			run += string(x)
			add(string(x))
			add(run)
		default:
			run = ""
		}
	}
	return out
}

// hasNamePrefix: some element of the tree has a name that begins with pfx (such documents are outside
// the round-trip domain when pfx is the attribute prefix).
func hasNamePrefix(n *XNode, pfx string) bool {
	if n == nil || pfx == "" {
		return false
	}
	if n.Kind == 'N' && strings.HasPrefix(n.Name, pfx) {
		return true
	}
	for _, k := range n.Kids {
		if hasNamePrefix(k, pfx) {
			return true
		}
	}
	return false
}

// elemText: the text alphabet, now and then with a carriage return at an edge (written as &#xD; by the
// renderer: the tokenizer does not normalise a character reference, the decoder trims it like the
// other white space; attribute values are never trimmed and keep to the plain alphabet).
func (r *Rng) elemText(g *XGen) string {
	t := r.Pick(g.Texts)
	if r.P(3) {
		return r.Pick([]string{"\r" + t, t + "\r", "\r"})
	}
	return t
}
