package main

// c05.go - escapeChars and entity expansion at string level; the encoder-level clauses of C05
// (four encoders x three escaping modes x validity check) are in c05enc.go.

import (
	"bytes"
	"encoding/xml"
	"fmt"
	"strings"

	mxj "github.com/clbanning/mxj/v2"
)

// tokenizeText returns the character data of <a>raw</a> as the real tokenizer sees it.
func tokenizeText(raw string) (string, bool) {
	d := xml.NewDecoder(bytes.NewReader([]byte("<a>" + raw + "</a>")))
	var sb strings.Builder
	depth := 0
	for {
		t, err := d.Token()
		if err != nil {
			return "", false
		}
		switch x := t.(type) {
		case xml.StartElement:
			depth++
			if depth > 1 {
				return "", false
			}
		case xml.CharData:
			sb.WriteString(string(x))
		case xml.EndElement:
			return sb.String(), true
		default:
			return "", false
		}
	}
}

func tokenizeAttr(raw string, q string) (string, bool) {
	d := xml.NewDecoder(bytes.NewReader([]byte("<a x=" + q + raw + q + "/>")))
	t, err := d.Token()
	if err != nil {
		return "", false
	}
	se, ok := t.(xml.StartElement)
	if !ok || len(se.Attr) != 1 {
		return "", false
	}
	if _, err := d.Token(); err != nil {
		return "", false
	}
	return se.Attr[0].Value, true
}

func c05Exec(op string) string {
	c, name := newCur(op)
	if name == "implonly" {
		c.pos++ // "enc4"
		return c05encExec(c)
	}
	s := c.str()
	if c.err != nil {
		return "bad-op " + c.err.Error()
	}
	switch name {
	case "esc":
		e := mxj.VerifEscapeChars(s)
		note := ""
		if t, ok := tokenizeText(e); !ok || t != s {
			note = fmt.Sprintf("escaped text does not decode back: %q -> %q -> %q (wellformed=%v)", s, e, t, ok)
		} else if t, ok := tokenizeAttr(e, "\""); !ok || t != s {
			note = fmt.Sprintf("escaped attribute value (double quotes) does not decode back: %q -> %q -> %q", s, e, t)
		} else if t, ok := tokenizeAttr(e, "'"); !ok || t != s {
			note = fmt.Sprintf("escaped attribute value (single quotes) does not decode back: %q -> %q -> %q", s, e, t)
		}
		return "ok " + encStr(e) + " | " + note
	case "unesc":
		// trusted-base sampling: the model of the tokenizer's entity expansion vs the tokenizer
		if t, ok := tokenizeText(s); ok {
			return "ok " + encStr(t)
		}
		return "err syntax"
	}
	return "bad-op"
}

func c05Describe(op string) string {
	c, name := newCur(op)
	if name == "implonly" {
		c.pos++
		mode := c.nat()
		valid := c.boolean()
		m := c.mapVal()
		sm := c.mapVal()
		return fmt.Sprintf("four encoders, escaping mode=%d (0 off, 1 encoder, 2 decoder) validity check=%v map=%s mapseq=%s", mode, valid, jsonOf(m), jsonOf(sm))
	}
	return fmt.Sprintf("%s %q", name, c.str())
}

func c05Judge(op, impl, model string) Verdict {
	_, name := newCur(op)
	v := Verdict{Tags: []string{name}}
	if name == "implonly" {
		v.Tags = []string{"enc4"}
		v.CorrOK, v.Nontrivial = true, true
		if strings.HasPrefix(impl, "panic") {
			v.OracleFail = "an encoder panicked: " + impl
			v.Sig = "enc4:panic"
			return v
		}
		ip := splitModel(impl)
		if len(ip) > 1 && ip[1] != "" {
			v.OracleFail = ip[1]
			v.Sig = "enc4:" + strings.Join(strings.Fields(ip[1])[:3], "-")
		}
		return v
	}
	if strings.HasPrefix(model, "skip-") {
		v.Skipped, v.CorrOK = true, true
		return v
	}
	ip, mp := splitModel(impl), splitModel(model)
	switch name {
	case "esc":
		v.CorrOK = ip[0] == mp[0]
		v.Nontrivial = strings.Contains(ip[0], "26") // an '&' was produced
		if len(ip) > 1 && ip[1] != "" {
			v.OracleFail = ip[1]
			v.Sig = "esc:roundtrip"
		}
	case "unesc":
		v.CorrOK = ip[0] == mp[0]
		v.Nontrivial = strings.HasPrefix(impl, "ok")
		if strings.HasPrefix(impl, "err") {
			v.Tags = append(v.Tags, "unesc:rejected")
		}
	}
	return v
}

func (r *Rng) hostile(maxParts int) string {
	n := r.Intn(maxParts + 1)
	var sb strings.Builder
	for i := 0; i < n; i++ {
		sb.WriteString(r.Pick(hostileStr))
	}
	return sb.String()
}

func c05Gen(r *Rng, n int) []string {
	var ops []string
	for len(ops) < n {
		s := r.hostile(8)
		ops = append(ops, "esc "+encStr(s))
		if r.P(25) {
			ops = append(ops, c05encGen(r))
		}
		// raw strings for the tokenizer model: mostly well-formed references, some broken
		raw := s
		if r.P(50) {
			raw = mxj.VerifEscapeChars(s)
			if r.P(30) && len(raw) > 0 {
				i := r.Intn(len(raw))
				raw = raw[:i] + r.Pick([]string{"&", ";", "&#", "&#x", "&#65;", "&#x41;", "&#xZ;", "&#;", "&bogus;", "&amp", "&#0;", "&#x110000;", "&#xD800;", "&#1114112;"}) + raw[i:]
			}
		}
		if !strings.Contains(raw, "<") && !strings.Contains(raw, "]]>") && !strings.Contains(raw, "\r") {
			ops = append(ops, "unesc "+encStr(raw))
		}
	}
	return ops
}

func init() {
	register(&Prop{
		ID:        "C05",
		Rule:      "strings of up to 8 pieces over the hostile alphabet (& < > \" ' &amp; &lt; &#x41; &#65; ]]> <![CDATA[ backslashes, braces, blanks, non-ASCII letters); escapeChars is compared with the model and its output is fed to the real tokenizer in element, double- and single-quoted attribute position; the model of the tokenizer's entity expansion is sampled on escaped strings with injected broken references; encoder-level clauses: see c05enc.go; non-trivial = an entity was produced / the tokenizer accepted; distinct = distinct op lines",
		Gen:       c05Gen,
		Exec:      c05Exec,
		Judge:     c05Judge,
		Describe:  c05Describe,
		QuickN:    5000,
		ThoroughN: 300000,
	})
}
