package main

// c19.go - Maps written to files, gob or Copy are read back equal (implementation oracles on
// scratch files outside /repo and /verif; the loop logic is modelled in Mxj.Model.Files).

import (
	"encoding/json"
	"bytes"
	"encoding/xml"
	"fmt"
	"io"
	"os"
	"path/filepath"
	"strings"

	mxj "github.com/clbanning/mxj/v2"
)

var scratchDir string

func scratch() string {
	if scratchDir == "" {
		d, err := os.MkdirTemp("", "mxjverif-c19-")
		if err != nil {
			panic(err)
		}
		scratchDir = d
	}
	return scratchDir
}

// tokensAll: the token stream of a whole file (several roots), and how it ended.
func tokensAll(doc []byte) (string, string) {
	d := xml.NewDecoder(bytes.NewReader(doc))
	var sb strings.Builder
	sb.WriteString("[ ")
	fin := "bad"
	for {
		t, err := d.Token()
		if err != nil {
			if err == io.EOF {
				fin = "eof"
			}
			break
		}
		switch x := t.(type) {
		case xml.StartElement:
			var as []XAttr
			for _, a := range x.Attr {
				as = append(as, XAttr{Space: a.Name.Space, Name: a.Name.Local, Value: a.Value})
			}
			sb.WriteString("[ " + encStr("S") + " " + encStr(x.Name.Space) + " " + encStr(x.Name.Local) + " " + encAttrs(as) + " ] ")
		case xml.EndElement:
			sb.WriteString("[ " + encStr("E") + " " + encStr(x.Name.Space) + " " + encStr(x.Name.Local) + " ] ")
		case xml.CharData:
			sb.WriteString("[ " + encStr("T") + " " + encStr(string(x)) + " ] ")
		case xml.Comment:
			sb.WriteString("[ " + encStr("C") + " " + encStr(string(x)) + " ] ")
		case xml.ProcInst:
			sb.WriteString("[ " + encStr("P") + " " + encStr(x.Target) + " " + encStr(string(x.Inst)) + " ] ")
		case xml.Directive:
			sb.WriteString("[ " + encStr("D") + " " + encStr(string(x)) + " ] ")
		}
	}
	sb.WriteString("]")
	return sb.String(), fin
}

// xfile / jfile: the file readers beside Mxj.Model.FilesXml.readMapsXml / Mxj.Model.Files.readMapsJson
func c19LoopExec(op string) string {
	c, name := newCur(op)
	var content string
	var o DecOpt
	if name == "xfile" {
		o = c.decOpt()
		c.val()
		c.val()
		c.pos++
		content = c.str()
	} else {
		content = c.str()
	}
	if c.err != nil {
		return "bad-op " + c.err.Error()
	}
	file := filepath.Join(scratch(), "loop."+name)
	defer os.Remove(file)
	if err := os.WriteFile(file, []byte(content), 0o644); err != nil {
		return "bad-gen " + err.Error()
	}
	var back mxj.Maps
	var err error
	var nraw int
	var rawErr error
	if name == "xfile" {
		o.apply()
		back, err = mxj.NewMapsFromXmlFile(file)
		rb, e2 := mxj.NewMapsFromXmlFileRaw(file)
		nraw, rawErr = len(rb), e2
	} else {
		mxj.JsonUseNumber = true
		back, err = mxj.NewMapsFromJsonFile(file)
		rb, e2 := mxj.NewMapsFromJsonFileRaw(file)
		nraw, rawErr = len(rb), e2
	}
	l := make([]interface{}, 0, len(back))
	for _, b := range back {
		l = append(l, map[string]interface{}(b))
	}
	res := "ok " + enc(l)
	if err != nil {
		res += " failed"
	} else {
		res += " done"
	}
	note := ""
	if nraw != len(back) || (rawErr == nil) != (err == nil) {
		note = "the Raw file reader disagrees with the plain one"
	}
	if name == "jfile" && note == "" {
		// "the Maps read so far": every Map that comes back is the decoding of one complete, valid
		// document of the file, in file order - nothing stands for the document that failed
		docs := jsonDocsOf(content)
		k := 0
		for k < len(docs) && json.Valid([]byte(docs[k])) {
			k++
		}
		switch {
		case len(back) > k:
			note = fmt.Sprintf("READSOFAR the file holds %d valid document(s) ahead of the first malformed one, %d Maps came back", k, len(back))
		case err != nil && len(back) < k:
			note = fmt.Sprintf("READSOFAR the file holds %d valid document(s) ahead of the failure, only %d Maps came back with the error", k, len(back))
		}
		for i := 0; i < len(back) && i < k && note == ""; i++ {
			want, e := mxj.NewMapJson([]byte(docs[i]))
			if e != nil || enc(map[string]interface{}(want)) != enc(map[string]interface{}(back[i])) {
				note = fmt.Sprintf("READSOFAR Map %d read from the file is not the decoding of document %d", i, i)
			}
		}
	}
	return res + " | " + note
}

// implonly files kind indent maps cut
func c19Exec(op string) string {
	if strings.HasPrefix(op, "xtok ") {
		// a whole multi-document file through the tokenizer model alone (c02.go: reference =
		// encoding/xml on the same bytes, inside the subset tokModelSupports describes)
		return xtokExec(op)
	}
	if strings.HasPrefix(op, "xfile ") || strings.HasPrefix(op, "jfile ") {
		return c19LoopExec(op)
	}
	c, _ := newCur(op)
	c.pos++ // "files"
	kind := c.toks[c.pos]
	c.pos++
	indent := c.boolean()
	lv := c.val()
	cut := c.nat() // 0 = intact, else truncate the file to cut-1 bytes
	if c.err != nil {
		return "bad-op " + c.err.Error()
	}
	var ms mxj.Maps
	for _, e := range lv.([]interface{}) {
		ms = append(ms, mxj.Map(toFloats(e).(map[string]interface{})))
	}
	mxj.XMLEscapeChars(true)
	file := filepath.Join(scratch(), "f."+kind)
	defer os.Remove(file)
	if len(op)%5 == 0 {
		// the path is a symbolic link to the file (writers and readers follow it alike)
		real := file + ".real"
		os.Remove(file)
		if os.Symlink(real, file) == nil {
			defer os.Remove(real)
		}
	}
	if len(op)%2 == 0 {
		// the file exists already and is longer than what will be written ("if it exists it will
		// be truncated")
		os.WriteFile(file, []byte(strings.Repeat("<old>previous content</old>{\"old\":1}\n", 400)), 0o644)
	}
	notes := []string{}
	// every indent string, the empty one included (XmlFileIndent(f, "", "") still writes what
	// XmlIndent("", "") returns for each Map)
	ind := []string{"  ", "", "\t", " "}[hashStr(strings.Join(c.toks, " "))%4]
	var err error
	// what each Map's own encoding decodes to
	var want, texts []string
	for _, m := range ms {
		switch kind {
		case "xml":
			var x []byte
			if indent {
				x, err = m.XmlIndent("", ind)
			} else {
				x, err = m.Xml()
			}
			if err != nil {
				return "bad-gen " + err.Error()
			}
			d, derr := mxj.NewMapXml(x)
			if derr != nil {
				return "bad-gen " + derr.Error()
			}
			want = append(want, enc(map[string]interface{}(d)))
			texts = append(texts, string(x))
		case "json":
			want = append(want, enc(map[string]interface{}(m)))
			j, _ := m.Json()
			if indent {
				j, _ = m.JsonIndent("", ind)
			}
			texts = append(texts, string(j))
		}
	}
	switch kind {
	case "xml":
		if indent {
			err = ms.XmlFileIndent(file, "", ind)
		} else {
			err = ms.XmlFile(file)
		}
	case "json":
		if indent {
			err = ms.JsonFileIndent(file, "", ind)
		} else {
			err = ms.JsonFile(file)
		}
	case "gob":
		gobEmpty := false
		for i, m := range ms {
			g, gerr := m.Gob()
			if gerr != nil {
				notes = append(notes, fmt.Sprintf("Gob() of Map %d failed: %s", i, oneLine(gerr.Error())))
				break
			}
			back, berr := mxj.NewMapGob(g)
			if berr != nil || !deepEq(map[string]interface{}(back), map[string]interface{}(m)) {
				if berr == nil && deepEq(nilToEmpty(map[string]interface{}(back)), nilToEmpty(map[string]interface{}(m))) {
					gobEmpty = true
				} else {
					notes = append(notes, fmt.Sprintf("NewMapGob(Gob(m)) differs from m for Map %d", i))
					break
				}
			}
			cp, cerr := m.Copy()
			if cerr != nil || !deepEq(map[string]interface{}(cp), map[string]interface{}(m)) {
				notes = append(notes, fmt.Sprintf("Copy() differs from m for Map %d", i))
				break
			}
		}
		// the list form: encode every Map first, decode the kept encodings afterwards
		var blobs [][]byte
		for _, m := range ms {
			g, gerr := m.Gob()
			if gerr != nil {
				blobs = nil
				break
			}
			blobs = append(blobs, g)
		}
		for i, g := range blobs {
			back, berr := mxj.NewMapGob(g)
			if berr == nil && deepEq(nilToEmpty(map[string]interface{}(back)), nilToEmpty(map[string]interface{}(ms[i]))) {
				continue // (equal up to nil-versus-empty lists: reported above as GOBEMPTY)
			}
			if berr != nil || !deepEq(map[string]interface{}(back), map[string]interface{}(ms[i])) {
				notes = append(notes, fmt.Sprintf("GOBLIST NewMapGob of the kept encoding of Map %d differs from the Map after later Gob() calls", i))
				break
			}
		}
		if gobEmpty && len(notes) == 0 {
			// (reported only when nothing else is wrong with the case: the recorded finding must
			// not hide another failure of the same case)
			notes = append(notes, "GOBEMPTY an empty list comes back from NewMapGob(Gob(m)) as a nil list")
		}
		return "ok | " + strings.Join(notes, "; ")
	}
	if err != nil {
		return "ok | writing the file failed: " + oneLine(err.Error())
	}
	content, _ := os.ReadFile(file)
	whole := len(ms)
	if cut > 0 && cut-1 < len(content) {
		os.WriteFile(file, content[:cut-1], 0o644)
		// how many documents are complete before the cut
		whole = 0
		off := 0
		for _, t := range texts {
			i := strings.Index(string(content[off:]), firstLine(t))
			_ = i
			off += len(t)
			if kind == "json" && indent && whole > 0 {
				off++ // "\n" joiner
			}
			if off <= cut-1 {
				whole++
			}
		}
	}
	var got []string
	var raws []string
	var rerr error
	switch kind {
	case "xml":
		var back mxj.Maps
		back, rerr = mxj.NewMapsFromXmlFile(file)
		for _, b := range back {
			got = append(got, enc(map[string]interface{}(b)))
		}
		rb, rawErr := mxj.NewMapsFromXmlFileRaw(file)
		if (rawErr == nil) != (rerr == nil) || len(rb) != len(back) {
			notes = append(notes, "the Raw file reader disagrees with the plain one")
		}
		for _, r := range rb {
			raws = append(raws, string(r.R))
		}
	case "json":
		var back mxj.Maps
		back, rerr = mxj.NewMapsFromJsonFile(file)
		for _, b := range back {
			got = append(got, enc(map[string]interface{}(b)))
		}
		rb, rawErr := mxj.NewMapsFromJsonFileRaw(file)
		if (rawErr == nil) != (rerr == nil) || len(rb) != len(back) {
			notes = append(notes, "the Raw file reader disagrees with the plain one")
		}
		for _, r := range rb {
			raws = append(raws, string(r.R))
		}
	}
	if cut == 0 {
		if rerr != nil {
			notes = append(notes, "reading the intact file failed: "+oneLine(rerr.Error()))
		} else if strings.Join(got, "\x00") != strings.Join(want, "\x00") {
			notes = append(notes, fmt.Sprintf("read back %d Maps, wrote %d, or contents differ", len(got), len(want)))
		}
		for i, r := range raws {
			t := texts[i]
			if kind == "json" {
				if !strings.Contains(stripJSONWs(r), stripJSONWs(t)) {
					notes = append(notes, fmt.Sprintf("raw value %d does not contain its document", i))
				}
			} else if !strings.Contains(r, t) {
				notes = append(notes, fmt.Sprintf("raw value %d does not contain its document", i))
			}
		}
	} else {
		// truncated file: the Maps of the complete documents, in order, then possibly an error
		if len(got) < whole || len(got) > len(want) {
			notes = append(notes, fmt.Sprintf("truncated file: %d Maps returned, %d documents were complete", len(got), whole))
		} else {
			for i := 0; i < whole; i++ {
				if got[i] != want[i] {
					notes = append(notes, fmt.Sprintf("truncated file: Map %d differs", i))
					break
				}
			}
		}
	}
	return "ok | " + strings.Join(notes, "; ")
}

// nilToEmpty replaces nil lists by empty ones (encoding/gob does not tell them apart).
func nilToEmpty(v interface{}) interface{} {
	switch x := v.(type) {
	case map[string]interface{}:
		o := make(map[string]interface{}, len(x))
		for k, e := range x {
			o[k] = nilToEmpty(e)
		}
		return o
	case []interface{}:
		o := make([]interface{}, len(x))
		for i, e := range x {
			o[i] = nilToEmpty(e)
		}
		return o
	}
	return v
}

func firstLine(s string) string {
	if i := strings.Index(s, "\n"); i >= 0 {
		return s[:i]
	}
	return s
}

func c19Describe(op string) string {
	if strings.HasPrefix(op, "xtok ") {
		c, _ := newCur(op)
		return fmt.Sprintf("tokenizer model vs encoding/xml on the concatenated documents file=%q", c.str())
	}
	if strings.HasPrefix(op, "xfile ") || strings.HasPrefix(op, "jfile ") {
		c, name := newCur(op)
		if name == "xfile" {
			o := c.decOpt()
			c.val()
			c.val()
			c.pos++
			return fmt.Sprintf("NewMapsFromXmlFile options=%+v file=%q", o, c.str())
		}
		return fmt.Sprintf("NewMapsFromJsonFile (JsonUseNumber) file=%q", c.str())
	}
	c, _ := newCur(op)
	c.pos++
	kind := c.toks[c.pos]
	c.pos++
	indent := c.boolean()
	lv := c.val()
	return fmt.Sprintf("files kind=%s indent=%v maps=%s truncate=%d", kind, indent, jsonOf(lv), c.nat())
}

func c19Judge(op, impl, model string) Verdict {
	if strings.HasPrefix(op, "xtok ") {
		return xtokcatJudge(op, impl, model)
	}
	if strings.HasPrefix(op, "xfile ") || strings.HasPrefix(op, "jfile ") {
		_, name := newCur(op)
		v := Verdict{Tags: []string{name}}
		if strings.HasPrefix(model, "skip-") || strings.HasPrefix(impl, "bad-gen") {
			v.Skipped, v.CorrOK = true, true
			return v
		}
		if strings.HasPrefix(impl, "panic") {
			v.OracleFail = "file reader panicked: " + impl
			v.Sig = name + ":panic"
			return v
		}
		ip := splitModel(impl)
		v.CorrOK = ip[0] == model
		v.Nontrivial = strings.Contains(ip[0], "{")
		if strings.HasSuffix(ip[0], " failed") {
			v.Tags = append(v.Tags, name+":failed")
		}
		if len(ip) > 1 && ip[1] != "" {
			v.OracleFail = ip[1]
			v.Sig = name + ":" + strings.Join(strings.Fields(ip[1])[:3], "-")
		}
		return v
	}
	v := Verdict{Tags: []string{"files"}, CorrOK: true, Nontrivial: true}
	if strings.HasPrefix(impl, "panic") {
		v.OracleFail = "file/gob round trip panicked: " + impl
		v.Sig = "files:panic"
		return v
	}
	if strings.HasPrefix(impl, "bad-gen") {
		v.Skipped = true
		return v
	}
	c, _ := newCur(op)
	c.pos++
	v.Tags = append(v.Tags, "files:"+c.toks[c.pos])
	ip := splitModel(impl)
	if len(ip) > 1 && ip[1] != "" {
		v.OracleFail = ip[1]
		v.Sig = "files:" + strings.Join(strings.Fields(ip[1])[:3], "-")
	}
	return v
}

// xtokcatJudge: xtokJudge (c02.go) on a file of several documents, with its own counters:
// xtokcat = comparisons asked for, xtokcat:skip = outside the tokenizer model's subset (or the
// driver skipped), xtokcat:err = both sides must reject the bytes, xtokcat:roots0/1/2+ = how
// many top-level elements the real tokenizer saw before it stopped.
func xtokcatJudge(op, impl, model string) Verdict {
	v := xtokJudge(op, impl, model)
	v.Tags = append(v.Tags, "xtokcat")
	switch {
	case v.Skipped:
		v.Tags = append(v.Tags, "xtokcat:skip")
		if f := strings.Fields(impl); len(f) == 2 && f[0] == "tokskip" {
			v.Tags = append(v.Tags, "xtokcat:skip:"+f[1])
		}
	case impl == "tok err":
		v.Tags = append(v.Tags, "xtokcat:err")
	default:
		v.Tags = append(v.Tags, "xtokcat:compared")
	}
	c, _ := newCur(op)
	doc := c.str()
	if c.err == nil {
		raw, _ := allTokens([]byte(doc), true)
		depth, roots := 0, 0
		for _, t := range raw {
			switch t.(type) {
			case xml.StartElement:
				if depth == 0 {
					roots++
				}
				depth++
			case xml.EndElement:
				depth--
			}
		}
		switch {
		case roots >= 2:
			v.Tags = append(v.Tags, "xtokcat:roots2+")
		default:
			v.Tags = append(v.Tags, fmt.Sprintf("xtokcat:roots%d", roots))
		}
	}
	return v
}

// xmlFileBytes: what Maps.XmlFile / Maps.XmlFileIndent write for these Maps (XmlString /
// XmlStringIndent: every Map's Xml() / XmlIndent() output, nothing between two documents).
func xmlFileBytes(l []interface{}, indent bool, ind string) (string, bool) {
	var ms mxj.Maps
	for _, e := range l {
		m, ok := e.(map[string]interface{})
		if !ok {
			return "", false
		}
		ms = append(ms, mxj.Map(m))
	}
	mxj.XMLEscapeChars(true)
	var s string
	var err error
	if indent {
		s, err = ms.XmlStringIndent("", ind)
	} else {
		s, err = ms.XmlString()
	}
	return s, err == nil
}

// c19CatGen: a file of 2-4 Xml() / XmlIndent() outputs of XML-shaped Maps, joined as the file
// writers join them (nothing between documents; three in ten with the "\n" a caller of
// XmlWriter would put), one in eight cut at a random byte.
func c19CatGen(r *Rng) (string, bool) {
	nm := 2 + r.Intn(3)
	indent := r.P(35)
	ind := r.Pick([]string{"  ", "", "\t", " "})
	sep := ""
	if r.P(30) {
		sep = "\n"
	}
	mxj.XMLEscapeChars(true)
	var parts []string
	for i := 0; i < nm; i++ {
		m := mxj.Map(r.xmlShapedMap())
		var x []byte
		var err error
		if indent {
			x, err = m.XmlIndent("", ind)
		} else {
			x, err = m.Xml()
		}
		if err != nil {
			return "", false
		}
		parts = append(parts, string(x))
	}
	content := strings.Join(parts, sep)
	if r.P(12) && len(content) > 0 {
		content = content[:r.Intn(len(content))]
	}
	return content, true
}

// c19Fixed: concatenated documents for the tokenizer comparison (every separator the loop
// generator uses, junk after the last document, a cut inside the second document).
func c19Fixed() []string {
	docs := []string{
		`<a/><b/>`, "<a>1</a>\n<b>2</b>", `<a>x</a><a>y</a><a>z</a>`, "<a k=\"v\"><b>1</b></a><c><d/></c>\n",
		"<!-- c -->\n<a>1</a><!-- between --><b>2</b><?pi x?>\n<c/>  \n", `<a>1</a><b>2</b>junk`, `<a>1</a></x>`,
		`<a>1</a><b`, `<a>1</a><b>2`, `<a>1</a>&<b/>`, `<a>1</a><!--`, "<doc>\n  <a>1</a>\n</doc><doc>\n  <a>2</a>\n</doc>",
		`<a>&lt;&amp;</a><a>&#x41;</a>`, "\n", ``,
	}
	var ops []string
	for _, d := range docs {
		ops = append(ops, "xtok "+encStr(d))
	}
	return ops
}

// xmlShapedMap: a Map that is the decoding of some document (one root key).
func (r *Rng) xmlShapedMap() map[string]interface{} {
	g := c01Gen0
	g.Comments, g.Namespaces, g.MultiTextP, g.MaxDepth = false, false, 0, 2
	var sb strings.Builder
	r.render(r.xmlDoc(&g), &sb)
	m, err := mxj.NewMapXml([]byte(sb.String()))
	if err != nil {
		return map[string]interface{}{"a": "x"}
	}
	return m
}

// jsonFileMap: non-null scalars, string values with braces, quotes and backslashes.
func (r *Rng) jsonFileMap(depth int) map[string]interface{} {
	m := map[string]interface{}{}
	n := r.Intn(3)
	if depth == 0 && n == 0 && r.P(85) {
		n = 1
	}
	for i := 0; i < n; i++ {
		k := r.Pick(plainKeys) + fmt.Sprint(i)
		switch {
		case depth < 2 && r.P(30):
			m[k] = r.jsonFileMap(depth + 1)
		case r.P(6):
			m[k] = []interface{}{}
		case r.P(15):
			m[k] = []interface{}{r.Pick(jsonStreamStrs), float64(r.Intn(9))}
		case r.P(20):
			m[k] = []interface{}{float64(r.Intn(100)), r.Bool()}[r.Intn(2)]
		default:
			s := ""
			for j := r.Intn(3); j > 0; j-- {
				s += r.Pick([]string{"x", "a{b", "}", "{", "\"", "\\", "q\"{", "}\\", " ", "\n"})
			}
			if r.P(15) {
				s += "\\"
			}
			m[k] = s
		}
	}
	return m
}

// c19LoopGen: whole files for the loop correspondence - 0-4 documents with separators,
// sometimes cut at a random byte or followed by junk.
func c19LoopGen(r *Rng) string {
	nd := r.Intn(5)
	if r.Bool() {
		content := r.Pick([]string{"", "\n", " ", "<!-- c -->\n"})
		g := c01Gen0
		g.MultiTextP, g.MaxDepth = 0, 2
		for i := 0; i < nd; i++ {
			var sb strings.Builder
			r.render(r.xmlDoc(&g), &sb)
			content += sb.String() + r.Pick([]string{"", "\n", "  \n", "<!-- between -->", "<?pi x?>\n"})
		}
		if r.P(25) && len(content) > 0 {
			content = content[:r.Intn(len(content))]
		} else if r.P(10) {
			content += r.Pick([]string{"junk", "</x>", "<", "<a", "&", "<!--"})
		}
		o := r.decOpt(false)
		o.Cast = false
		toks, fin := tokensAll([]byte(content))
		return fmt.Sprintf("xfile %s %s %s %s %s", o.enc(), strconvTable(nil), toks, fin, encStr(content))
	}
	content := r.Pick([]string{"", "\n", " "})
	for i := 0; i < nd; i++ {
		if r.P(70) {
			content += r.jsonStreamDoc()
		} else {
			content += r.jsonText(r.jsonFileMap(0))
		}
		content += r.Pick([]string{"", "\n", "  ", "\n\n", ",", "x"})
	}
	if r.P(12) && len(content) > 0 {
		// one byte of one document damaged while its braces still balance (a colon, comma, digit or
		// literal overwritten): the scanner delivers the document, the decoder rejects it - the Maps
		// read so far come back with the error, and nothing else
		b := []byte(content)
		var at []int
		for i, c := range b {
			if c == ':' || c == ',' || (c >= '0' && c <= '9') || c == 't' || c == 'n' {
				at = append(at, i)
			}
		}
		if len(at) > 0 {
			b[at[r.Intn(len(at))]] = r.Pick([]string{";", "x", "~", "'"})[0]
			content = string(b)
		}
	} else if r.P(25) && len(content) > 0 {
		content = content[:r.Intn(len(content))]
	} else if r.P(10) {
		content += r.Pick([]string{"}", "{", "{\"a\":", "null", "[1]", "\""})
	}
	return "jfile " + encStr(content)
}

func c19Gen(r *Rng, n int) []string {
	var ops []string
	// the whole files of this batch once more, as byte strings for the tokenizer model (appended
	// after the n cases above them, so those are the same cases with or without this comparison)
	var cat []string
	for len(ops) < n {
		if r.P(50) {
			op := c19LoopGen(r)
			ops = append(ops, op)
			if strings.HasPrefix(op, "xfile ") {
				f := strings.Fields(op)
				cat = append(cat, "xtok "+f[len(f)-1])
			}
			continue
		}
		kind := r.Pick([]string{"xml", "json", "json", "gob"})
		nm := 1 + r.Intn(4)
		var l []interface{}
		for i := 0; i < nm; i++ {
			switch kind {
			case "xml":
				l = append(l, r.xmlShapedMap())
			default:
				l = append(l, r.jsonFileMap(0))
			}
		}
		cut := 0
		if r.P(30) && kind != "gob" {
			cut = 1 + r.Intn(200)
		}
		ops = append(ops, fmt.Sprintf("implonly files %s %d %s %d", kind, b2i(r.Bool()), encJ(l), cut))
		if kind == "xml" {
			// the bytes XmlFile / XmlFileIndent write for these Maps (same indent string and cut as
			// c19Exec uses for this op line)
			last := ops[len(ops)-1]
			indent := strings.HasPrefix(last, "implonly files xml 1 ")
			if content, ok := xmlFileBytes(l, indent, []string{"  ", "", "\t", " "}[hashStr(strings.Join(strings.Fields(last), " "))%4]); ok {
				if cut > 0 && cut-1 < len(content) {
					content = content[:cut-1]
				}
				cat = append(cat, "xtok "+encStr(content))
			}
		}
	}
	for i := n / 8; i > 0; i-- {
		if content, ok := c19CatGen(r); ok {
			cat = append(cat, "xtok "+encStr(content))
		}
	}
	return append(ops, cat...)
}

func init() {
	register(&Prop{
		ID:        "C19",
		Rule:      "lists of 1-4 Maps: XML-shaped (decoded from generated documents, escaping on) through XmlFile/XmlFileIndent and back, JSON Maps (non-null scalars; strings with braces, quotes, backslashes, trailing backslash; empty objects) through JsonFile/JsonFileIndent and back, both also through the Raw readers; gob and Copy round trips; 30% of the files truncated at a random offset (Maps of the complete documents, then an error); whole files (0-4 generated XML documents / JSON objects with separators, 25% cut at a random byte, 10% followed by junk) read by NewMapsFromXmlFile / NewMapsFromJsonFile (and the Raw forms) beside the Lean file loops readMapsXml (on the real token stream of the file) / readMapsJson (on the bytes); scratch files under the system temp dir, removed after each case; the bytes of those whole XML files, of what XmlFile/XmlFileIndent write for the Map lists (XmlString/XmlStringIndent: nothing between documents) and of 2-4 further Xml()/XmlIndent() outputs of XML-shaped Maps concatenated (nothing or a newline between, one in eight cut), plus fixed concatenations, also go through the tokenizer model (driver op xtok) and are compared token by token with encoding/xml on the concatenated bytes inside the model's subset (no directive, ASCII names; tags xtokcat, xtokcat:compared/err/skip, xtokcat:roots*); non-trivial = every case of the first kind, a file yielding at least one Map for the second, a byte string the real tokenizer accepted for the third; distinct = distinct op lines",
		Gen:       c19Gen,
		Exec:      c19Exec,
		Judge:     c19Judge,
		Describe:  c19Describe,
		Fixed:     c19Fixed,
		QuickN:    1500,
		ThoroughN: 60000,
	})
}

// jsonDocsOf splits a byte string into its top-level {...} texts the way a brace scanner sees them
// (braces inside string literals do not count; what stands between documents is skipped; an
// unclosed last document is left out).
func jsonDocsOf(s string) []string {
	var docs []string
	depth, start, inStr, esc := 0, -1, false, false
	for i := 0; i < len(s); i++ {
		c := s[i]
		if depth == 0 {
			if c == '{' {
				depth, start = 1, i
			}
			if c == '}' || c == '"' {
				return docs // a stray closing brace or quote: what the scanner does from here on is its own business
			}
			continue
		}
		switch {
		case inStr:
			switch {
			case esc:
				esc = false
			case c == '\\':
				esc = true
			case c == '"':
				inStr = false
			}
		case c == '"':
			inStr = true
		case c == '{':
			depth++
		case c == '}':
			depth--
			if depth == 0 {
				docs = append(docs, s[start:i+1])
			}
		}
	}
	return docs
}
