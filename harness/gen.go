package main

// gen.go - type-directed generators.  Key alphabets are small on purpose (collisions,
// repeated keys at several depths); value alphabets are rich in characters the code treats
// specially.

import (
	"fmt"
	"math"
	"reflect"
	"strings"
	"unicode/utf8"
)

var keyAlpha = []string{"a", "b", "c", "k", "item", "-x", "-id", "#text", "ns:a", "A", "a-b", "_seq", "list", "d", "2", "0"}
var plainKeys = []string{"a", "b", "c", "k", "item", "d", "list", "2"}
var strAlpha = []string{"", "x", "y", "hello", "1", "true", "a b", "3.5", "*", "!", ":", "a:b", "x<y", "R&D", "\"q\"", "it's", "]]>", "&amp;", "&#x41;", "\\", "{", "}", " pad ", "é", "日本"}
var hostileStr = []string{"&", "<", ">", "\"", "'", "&amp;", "&lt;", "&#x41;", "&#65;", "]]>", "<![CDATA[", "\\", "\\u003c", "\\u003e", "\\u0026", "{", "}", "a", "b", " ", "\t", "\n", "é", "x", "&amp;amp;", "--", "?>", "<!--"}

type GenCfg struct {
	Keys        []string
	MaxDepth    int
	MaxWidth    int
	ListInList  bool // allow a list directly inside a list
	EmptyList   bool
	Nulls       bool
	WideP       int // percent chance that a list is wider than the default result capacity
	OddKeys     bool
	ScalarOnlyS bool // scalars are strings only (XML-decoded shape)
}

var jsonShape = GenCfg{Keys: plainKeys, MaxDepth: 4, MaxWidth: 4, EmptyList: true, Nulls: true, WideP: 2}

func (r *Rng) Scalar(c *GenCfg) interface{} {
	if c.ScalarOnlyS {
		return r.Pick(strAlpha)
	}
	switch r.Intn(10) {
	case 0:
		return float64(r.Intn(5))
	case 1:
		// (pairs of numbers that differ in the last bit or beyond the ninth significant digit)
		return []float64{1.5, -2, 1e21, 0.25, 100, 0.3, 0.30000000000000004, 1e10, 1e10 + 1, 0.1, 0.1 + 1e-12, 0, math.Copysign(0, -1)}[r.Intn(13)]
	case 2:
		return r.Bool()
	case 3:
		if c.Nulls {
			return nil
		}
		return "z"
	default:
		return r.Pick(strAlpha)
	}
}

func (r *Rng) Key(c *GenCfg) string {
	if c.OddKeys && r.P(15) {
		return r.Pick([]string{"", ".", "a.b", "[0]", "*", "a[1]", "!", "-", "#", " ", "k]", "]", "a]b", "caf\xe9", "\x80k"})
	}
	return r.Pick(c.Keys)
}

// Value generates a value of bounded depth.
func (r *Rng) Value(c *GenCfg, depth int, inList bool) interface{} {
	if depth >= c.MaxDepth || r.P(35) {
		return r.Scalar(c)
	}
	if r.P(55) {
		return r.MapVal(c, depth+1)
	}
	if inList && !c.ListInList {
		return r.MapVal(c, depth+1)
	}
	return r.ListVal(c, depth+1)
}

func (r *Rng) MapVal(c *GenCfg, depth int) map[string]interface{} {
	m := map[string]interface{}{}
	n := r.Intn(c.MaxWidth + 1)
	for i := 0; i < n; i++ {
		m[r.Key(c)] = r.Value(c, depth, false)
	}
	return m
}

func (r *Rng) ListVal(c *GenCfg, depth int) []interface{} {
	n := r.Intn(c.MaxWidth + 1)
	if n == 0 && !c.EmptyList {
		n = 1
	}
	if r.P(c.WideP) {
		n = 33 + r.Intn(40)
	}
	l := make([]interface{}, 0, n)
	kind := r.Intn(3) // 0 scalars, 1 maps, 2 mixed
	if kind == 1 && n >= 2 && n <= 32 && r.P(35) {
		return r.variantList(c, depth, n)
	}
	for i := 0; i < n; i++ {
		switch {
		case kind == 0 || (kind == 2 && r.Bool()):
			if n > 32 {
				l = append(l, fmt.Sprintf("w%d", i))
			} else {
				l = append(l, r.Scalar(c))
			}
		default:
			if c.ListInList && r.P(15) {
				l = append(l, r.ListVal(c, depth+1))
			} else {
				l = append(l, r.MapVal(c, depth+1))
			}
		}
	}
	return l
}

// variantList is the record-list shape of real documents: n members cut from one template, each
// with a few local differences (a key missing, a sub-tree replaced by a scalar, an empty list or
// map, or by something else), so that members share keys but not what lies below them.
func (r *Rng) variantList(c *GenCfg, depth int, n int) []interface{} {
	var tmpl map[string]interface{}
	for try := 0; try < 4; try++ {
		tmpl = r.MapVal(c, depth+1)
		if len(tmpl) > 0 {
			break
		}
	}
	l := make([]interface{}, 0, n)
	for i := 0; i < n; i++ {
		mem := deepCopy(tmpl).(map[string]interface{})
		x := r.Intn(3)
		if i == 0 && x == 0 {
			x = 1 + r.Intn(2) // the first member always differs (first-match shortcuts stop there)
		}
		for ; x > 0; x-- {
			r.mutateAt(c, mem, depth+1)
		}
		l = append(l, mem)
	}
	return l
}

// mutateAt walks down existing keys for a random number of steps and changes what it finds there.
func (r *Rng) mutateAt(c *GenCfg, m map[string]interface{}, depth int) {
	for {
		ks := sortedKeys(m)
		if len(ks) == 0 {
			m[r.Key(c)] = r.Scalar(c)
			return
		}
		k := ks[r.Intn(len(ks))]
		if sub, ok := m[k].(map[string]interface{}); ok && r.P(60) {
			m = sub
			depth++
			continue
		}
		if sub, ok := m[k].([]interface{}); ok && len(sub) > 0 && r.P(50) {
			if mm, ok := sub[r.Intn(len(sub))].(map[string]interface{}); ok {
				m = mm
				depth++
				continue
			}
		}
		switch r.Intn(6) {
		case 0:
			delete(m, k)
		case 1:
			m[k] = r.Scalar(c)
		case 2:
			if c.EmptyList {
				m[k] = []interface{}{}
			} else {
				m[k] = map[string]interface{}{}
			}
		case 3:
			m[k] = map[string]interface{}{}
		case 4:
			m[k] = r.Value(c, depth, false)
		default:
			m[r.Key(c)] = r.Value(c, depth, false)
		}
		return
	}
}

// chainDoc builds a Map around ONE path: the keys of the path lead down a chain of maps in which any
// level may be a list of alternatives; inside a list each member follows the chain to a different
// depth - it ends early (key missing, scalar, null, empty map or list) or reaches a final value.
// So first, middle and last members differ in how far the path gets with them.
func (r *Rng) chainDoc(c *GenCfg) (map[string]interface{}, string) {
	n := 2 + r.Intn(4)
	// dense mode: longer paths, most levels are lists, few members end early - so that several
	// list levels lie on ONE path and every parent contributes several values (what indexed
	// look-ahead steps separated by plain list steps need in order to go wrong)
	dense := r.P(30)
	pList, pDead := 35, 40
	if dense {
		n = 3 + r.Intn(3)
		pList, pDead = 65, 15
	}
	keys := make([]string, n)
	for i := range keys {
		keys[i] = r.Pick(c.Keys)
	}
	var node func(i int, inList bool) interface{}
	deadEnd := func(i int) interface{} {
		switch r.Intn(6) {
		case 0:
			return r.Scalar(c)
		case 1:
			return map[string]interface{}{}
		case 2:
			if c.EmptyList {
				return []interface{}{}
			}
			return "end"
		case 3:
			if c.Nulls {
				return nil
			}
			return "end"
		default:
			// a map that lacks the next key but has others (possibly later keys of the path)
			m := map[string]interface{}{"other": r.Scalar(c)}
			if i+1 < n && r.Bool() {
				m[keys[i+1]] = r.Scalar(c)
			}
			return m
		}
	}
	node = func(i int, inList bool) interface{} {
		if i == n {
			switch r.Intn(5) {
			case 0:
				return []interface{}{r.Scalar(c), r.Scalar(c)}
			case 1:
				return map[string]interface{}{"leaf": r.Scalar(c)}
			case 2:
				if c.EmptyList {
					return []interface{}{}
				}
				return "v"
			default:
				return r.Scalar(c)
			}
		}
		if !inList && i > 0 && r.P(pList) {
			k := 2 + r.Intn(3)
			l := make([]interface{}, 0, k)
			for j := 0; j < k; j++ {
				switch {
				case r.P(pDead):
					l = append(l, deadEnd(i-1))
				case r.P(10):
					l = append(l, r.Scalar(c))
				default:
					l = append(l, node(i, true))
				}
			}
			return l
		}
		if i > 0 && !inList && r.P(8) {
			return deadEnd(i - 1)
		}
		m := map[string]interface{}{keys[i]: node(i+1, false)}
		if r.P(30) {
			m[r.Pick(c.Keys)] = r.Scalar(c)
		}
		return m
	}
	root, _ := node(0, false).(map[string]interface{})
	if root == nil {
		root = map[string]interface{}{keys[0]: "x"}
	}
	return root, strings.Join(keys, ".")
}

// RootMap generates a non-trivial top-level Map; about one in seventy gets one LARGE part
// (sizes beyond the usual buffer and capacity thresholds).
func (r *Rng) RootMap(c *GenCfg) map[string]interface{} {
	if r.P(8) {
		m, p := r.chainDoc(c)
		// some unrelated siblings at the top
		for x := r.Intn(3); x > 0; x-- {
			if k := r.Key(c); k != strings.Split(p, ".")[0] {
				m[k] = r.Value(c, 1, false)
			}
		}
		r.chainMap, r.chainPath = m, p
		return m
	}
	for {
		m := r.MapVal(c, 0)
		if len(m) > 0 {
			if r.P(3) && r.Bool() {
				r.enlarge(m, c)
			}
			return m
		}
	}
}

// bigSize: beyond 64 KB, or exactly at / next to a power-of-two buffer size.
func (r *Rng) bigSize() int {
	if r.Bool() {
		return 66000 + r.Intn(9000)
	}
	return []int{4095, 4096, 4097, 8191, 8192, 8193, 16384, 32768, 65535, 65536, 65537}[r.Intn(11)]
}

// bigString: n characters with some special ones and multi-byte runes spread through it.
func (r *Rng) bigString(n int) string {
	var sb strings.Builder
	for sb.Len() < n {
		sb.WriteString(r.Pick([]string{"abcdefghijklmnopqrstuvwxyz0123456789", "x<y", "R&D ", "é日本", "}{\"", "  ", "0123456789"}))
	}
	s := sb.String()
	// exactly n bytes, cut at a rune boundary and padded with ASCII
	for len(s) > n {
		_, w := utf8.DecodeLastRuneInString(s)
		s = s[:len(s)-w]
	}
	return s + strings.Repeat("z", n-len(s))
}

// enlarge adds one large part to a Map: a long string, a wide list, a long key or a deep chain.
func (r *Rng) enlarge(m map[string]interface{}, c *GenCfg) {
	k := r.Pick(plainKeys)
	switch r.Intn(5) {
	case 0:
		m[k] = r.bigString(r.bigSize())
	case 1:
		n := 1000 + r.Intn(3000)
		l := make([]interface{}, n)
		for i := range l {
			l[i] = fmt.Sprintf("w%d", i)
		}
		m[k] = l
	case 2:
		n := 300 + r.Intn(900)
		l := make([]interface{}, n)
		for i := range l {
			l[i] = map[string]interface{}{"id": fmt.Sprint(i % 7), k: float64(i)}
		}
		m[k] = l
	case 3:
		m[strings.Repeat(k, 150+r.Intn(200))] = r.Scalar(c)
	default:
		var cur interface{} = "deep"
		for i := 0; i < 40+r.Intn(40); i++ {
			cur = map[string]interface{}{r.Pick([]string{"a", "b"}): cur}
		}
		m[k] = cur
	}
}

// DerivedPath follows the Map: existing key 70%, wildcard 10%, index 10%, absent key 10%.
// allowIdx permits indexed steps (only on non-wildcard steps).
func (r *Rng) DerivedPath(m map[string]interface{}, allowIdx bool, maxLen int) string {
	if r.chainMap != nil && r.chainPath != "" && len(m) > 0 && sameMap(m, r.chainMap) && r.Bool() {
		segs := strings.Split(r.chainPath, ".")
		switch x := r.Intn(len(segs)); r.Intn(5) {
		case 0:
			segs[x] = "*"
		case 1:
			if allowIdx {
				segs[x] = fmt.Sprintf("%s[%d]", segs[x], r.Intn(3))
			}
		case 2:
			// several indexed steps on one path, plain (list) steps between them
			if allowIdx {
				for i := range segs {
					if r.P(45) && segs[i] != "*" && segs[i] != "" {
						segs[i] = fmt.Sprintf("%s[%d]", segs[i], r.Intn(2)+r.Intn(2)*r.Intn(2))
					}
				}
			}
		}
		return strings.Join(segs, ".")
	}
	var segs []string
	var cur interface{} = m
	n := 1 + r.Intn(maxLen)
	for i := 0; i < n; i++ {
		// a list stands for its members (a list directly inside a list is looked through as well:
		// the resulting path names keys the walkers must NOT reach by plain key steps)
		empty := false
		for {
			l, ok := cur.([]interface{})
			if !ok {
				break
			}
			if len(l) == 0 {
				empty = true
				break
			}
			if r.Bool() {
				cur = l[len(l)-1] // as often as not what only a LATER member has
			} else {
				cur = l[r.Intn(len(l))]
			}
		}
		if empty {
			break
		}
		mm, ok := cur.(map[string]interface{})
		if !ok {
			if r.P(70) {
				break
			}
			// a step beyond a scalar (or a scalar list member): a plain key or the wildcard
			if r.P(40) {
				segs = append(segs, "*")
			} else {
				segs = append(segs, r.Pick(plainKeys))
			}
			cur = nil
			continue
		}
		ks := sortedKeys(mm)
		x := r.Intn(100)
		switch {
		case x < 70 && len(ks) > 0:
			k := ks[r.Intn(len(ks))]
			seg := k
			next := mm[k]
			if allowIdx && k != "*" { // (an index on a "*" step is outside every path domain)
				if l, ok := next.([]interface{}); ok && r.P(55) {
					idx := r.Intn(len(l) + 1)
					if r.P(10) {
						idx = len(l) + r.Intn(3)
					}
					seg = fmt.Sprintf("%s[%d]", k, idx)
					if idx < len(l) {
						next = l[idx]
					} else {
						next = nil
					}
				} else if r.P(8) {
					seg = fmt.Sprintf("%s[%d]", k, r.Intn(2))
				}
			}
			segs = append(segs, seg)
			cur = next
		case x < 80:
			segs = append(segs, "*")
			if len(ks) > 0 {
				cur = mm[ks[r.Intn(len(ks))]]
			} else {
				cur = nil
			}
		default:
			segs = append(segs, r.Pick([]string{"zz", "k", "a", "b"}))
			cur = nil
		}
	}
	if len(segs) == 0 {
		segs = append(segs, r.Pick(plainKeys))
	}
	p := strings.Join(segs, ".")
	if r.P(3) {
		p += "."
	}
	return p
}

func sortedKeys(m map[string]interface{}) []string {
	ks := make([]string, 0, len(m))
	for k := range m {
		ks = append(ks, k)
	}
	sortStrings(ks)
	return ks
}

func sameMap(a, b map[string]interface{}) bool {
	return reflect.ValueOf(a).Pointer() == reflect.ValueOf(b).Pointer()
}
