package main

// rng.go - one deterministic PRNG (splitmix64); every random choice derives from VERIF_SEED.

type Rng struct {
	s uint64
	// the last Map RootMap built around one path (chainDoc) and that path; DerivedPath returns it
	// (or a variation) half of the time when asked about that Map
	chainMap  map[string]interface{}
	chainPath string
}

func NewRng(seed uint64) *Rng { return &Rng{s: seed + 0x9e3779b97f4a7c15} }

func (r *Rng) Next() uint64 {
	r.s += 0x9e3779b97f4a7c15
	z := r.s
	z = (z ^ (z >> 30)) * 0xbf58476d1ce4e5b9
	z = (z ^ (z >> 27)) * 0x94d049bb133111eb
	return z ^ (z >> 31)
}

func (r *Rng) Intn(n int) int {
	if n <= 0 {
		return 0
	}
	return int(r.Next() % uint64(n))
}

func (r *Rng) Bool() bool { return r.Next()&1 == 1 }

// P returns true with probability pct/100.
func (r *Rng) P(pct int) bool { return r.Intn(100) < pct }

func (r *Rng) Pick(xs []string) string { return xs[r.Intn(len(xs))] }
