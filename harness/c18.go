package main

// c18.go - package options: random histories of setter calls (explicit, toggling, repeated
// forms) compared state by state with Mxj.Model.Opt through the VerifOptions hook; restoring
// the defaults afterwards; behavioural non-interference probes.

import (
	"bytes"
	"fmt"
	"sort"
	"strings"

	mxj "github.com/clbanning/mxj/v2"
)

type optCall struct {
	name string
	arg  interface{} // nil = argument-less form; bool; string; float64 (array size)
}

func applyCall(c optCall) {
	ob := func(f func(...bool)) {
		if c.arg == nil {
			f()
		} else {
			f(c.arg.(bool))
		}
	}
	switch c.name {
	case "SetGlobalKeyMapPrefix":
		mxj.SetGlobalKeyMapPrefix(c.arg.(string))
	case "IncludeTagSeqNum":
		ob(mxj.IncludeTagSeqNum)
	case "CoerceKeysToLower":
		ob(mxj.CoerceKeysToLower)
	case "DisableTrimWhiteSpace":
		ob(mxj.DisableTrimWhiteSpace)
	case "PrependAttrWithHyphen":
		mxj.PrependAttrWithHyphen(c.arg.(bool))
	case "SetAttrPrefix":
		mxj.SetAttrPrefix(c.arg.(string))
	case "CoerceKeysToSnakeCase":
		ob(mxj.CoerceKeysToSnakeCase)
	case "CastValuesToInt":
		ob(mxj.CastValuesToInt)
	case "HandleXMPPStreamTag":
		ob(mxj.HandleXMPPStreamTag)
	case "DecodeSimpleValuesAsMap":
		ob(mxj.DecodeSimpleValuesAsMap)
	case "CastNanInf":
		ob(mxj.CastNanInf)
	case "CastValuesToFloat":
		ob(mxj.CastValuesToFloat)
	case "CastValuesToBool":
		ob(mxj.CastValuesToBool)
	case "SetCheckTagToSkipFunc":
		if c.arg.(bool) {
			mxj.SetCheckTagToSkipFunc(func(string) bool { return false })
		} else {
			mxj.SetCheckTagToSkipFunc(nil)
		}
	case "XmlGoEmptyElemSyntax":
		mxj.XmlGoEmptyElemSyntax()
	case "XmlDefaultEmptyElemSyntax":
		mxj.XmlDefaultEmptyElemSyntax()
	case "XmlCheckIsValid":
		ob(mxj.XmlCheckIsValid)
	case "XMLEscapeChars":
		ob(mxj.XMLEscapeChars)
	case "XMLEscapeCharsDecoder":
		ob(mxj.XMLEscapeCharsDecoder)
	case "SetFieldSeparator":
		if c.arg == nil {
			mxj.SetFieldSeparator()
		} else {
			mxj.SetFieldSeparator(c.arg.(string))
		}
	case "LeafUseDotNotation":
		ob(mxj.LeafUseDotNotation)
	case "SetArraySize":
		mxj.SetArraySize(int(c.arg.(float64)))
	}
}

func encCalls(cs []optCall) string {
	var sb strings.Builder
	sb.WriteString("[ ")
	for _, c := range cs {
		a := "n"
		switch x := c.arg.(type) {
		case bool:
			a = enc(x)
		case string:
			a = encStr(x)
		case float64:
			a = fmt.Sprintf("#i:%d", int(x))
		}
		sb.WriteString("[ " + encStr(c.name) + " " + a + " ] ")
	}
	sb.WriteString("]")
	return sb.String()
}

func decCalls(v interface{}) []optCall {
	var out []optCall
	l, _ := v.([]interface{})
	for _, e := range l {
		p, _ := e.([]interface{})
		if len(p) != 2 {
			continue
		}
		c := optCall{name: p[0].(string)}
		switch x := p[1].(type) {
		case bool, string:
			c.arg = x
		case int:
			c.arg = float64(x)
		}
		out = append(out, c)
	}
	return out
}

func dumpOptions() string {
	o := mxj.VerifOptions()
	order := []string{"textK", "seqK", "commentK", "attrK", "directiveK", "procinstK", "targetK", "instK", "includeTagSeqNum", "lowerCase", "disableTrimWhiteSpace", "trimRunes", "attrPrefix", "lenAttrPrefix", "snakeCaseKeys", "castToInt", "handleXMPPStreamTag", "decodeSimpleValuesAsMap", "castNanInf", "castToFloat", "castToBool", "checkTagToSkip", "useGoXmlEmptyElemSyntax", "xmlCheckIsValid", "xmlEscapeChars", "xmlEscapeCharsDecoder", "fieldSep", "useDotNotation", "defaultArraySize"}
	var parts []string
	for _, k := range order {
		parts = append(parts, k+"="+hx(o[k]))
	}
	return strings.Join(parts, " ")
}

// probe: a fixed set of decode / encode / query calls whose results must be those of a
// fresh process once the defaults are restored.
func probeAll() string {
	var parts []string
	doc := []byte(`<Doc a-b="1" X="t"><item id="1">x &amp; y</item><item>2</item><e/><T-x> pad </T-x><![CDATA[<c>]]></Doc>`)
	m, err := mxj.NewMapXml(doc, true)
	parts = append(parts, enc(map[string]interface{}(m)), fmt.Sprint(err))
	ms, err := mxj.NewMapXmlSeq(doc)
	parts = append(parts, enc(map[string]interface{}(ms)), fmt.Sprint(err))
	x, err := m.Xml()
	parts = append(parts, string(x), fmt.Sprint(err))
	xi, err := m.XmlIndent("", " ")
	parts = append(parts, string(xi), fmt.Sprint(err))
	xs, err := ms.Xml()
	parts = append(parts, string(xs), fmt.Sprint(err))
	j, err := m.Json()
	parts = append(parts, string(j), fmt.Sprint(err))
	mj, err := mxj.NewMapJson([]byte(`{"a":{"b":[1,{"c":"x:y"}],"-k":"v","#text":"t"},"e":{}}`))
	parts = append(parts, enc(map[string]interface{}(mj)), fmt.Sprint(err))
	vs, err := mj.ValuesForPath("a.b", "c:x:y")
	parts = append(parts, enc(vs), fmt.Sprint(err != nil))
	ln := mj.LeafNodes(true)
	var lp []string
	for _, l := range ln {
		lp = append(lp, l.Path+"="+enc(l.Value))
	}
	sort.Strings(lp)
	parts = append(parts, strings.Join(lp, ","))
	ax, err := mxj.AnyXml([]interface{}{map[string]interface{}{"-k": "v"}, "s<"})
	parts = append(parts, string(ax), fmt.Sprint(err))
	return strings.Join(parts, "\x1f")
}

var freshProbe string

// sepProbe: the same sub-key arguments, written with every separator of the alphabet, under the
// separator cur: "id<s>1" is a condition (one member selected) exactly when splitting it at cur
// gives two fields, and a malformed argument (an error) otherwise.
func sepProbe(cur string) string {
	m := mxj.Map{"rec": []interface{}{map[string]interface{}{"id": "1", "n": "a"}, map[string]interface{}{"id": "2", "n": "b"}}}
	for _, s := range []string{"|", "::", ":", "é", ";"} {
		arg := "id" + s + "1"
		vs, err := m.ValuesForPath("rec", arg)
		vk, errk := m.ValuesForKey("rec", arg)
		want := len(strings.Split(arg, cur)) == 2
		if want != (err == nil && len(vs) == 1) || want != (errk == nil && len(vk) == 1) {
			return fmt.Sprintf("SEPARATOR with the field separator %q the sub-key argument %q is read as if another separator were in force (ValuesForPath: %d value(s), %v; ValuesForKey: %d, %v)", cur, arg, len(vs), err, len(vk), errk)
		}
	}
	return ""
}

func hasKeyAnywhere(v interface{}, key string) bool {
	switch x := v.(type) {
	case map[string]interface{}:
		if _, ok := x[key]; ok {
			return true
		}
		for _, e := range x {
			if hasKeyAnywhere(e, key) {
				return true
			}
		}
	case []interface{}:
		for _, e := range x {
			if hasKeyAnywhere(e, key) {
				return true
			}
		}
	}
	return false
}

// uncastProbe: decoding without the cast flag, on texts every cast option has an opinion about.
func uncastProbe() string {
	doc := []byte(`<d a="NaN" b="1" c="true"><x>Inf</x><y>true</y><z>12</z><w>-Infinity</w><v k="+inf">3.5</v></d>`)
	m, _ := mxj.NewMapXml(doc)
	mr, _ := mxj.NewMapXmlReader(bytes.NewReader(doc))
	ms, _ := mxj.NewMapXmlSeq(doc)
	return enc(map[string]interface{}(m)) + "\x1f" + enc(map[string]interface{}(mr)) + "\x1f" + enc(map[string]interface{}(ms))
}

// seqJsonProbe: what attribute prefix / case folding must not affect.
func seqJsonProbe() string {
	// (element names that begin with what an attribute prefix may be: the sequence codec keeps
	// attributes under its own key and has no notion of a prefix)
	doc := []byte(`<Doc A-b="1"><Item ID="1">x</Item><_id>u</_id><attr_x at="1">v</attr_x><A_y/><__z>w</__z><a-b>h</a-b></Doc>`)
	ms, _ := mxj.NewMapXmlSeq(doc)
	xs, _ := ms.Xml()
	if xi, err := ms.XmlIndent("", " "); err == nil {
		xs = append(xs, xi...)
	}
	mj, _ := mxj.NewMapJson([]byte(`{"A":{"-K":"v"}}`))
	j, _ := mj.Json()
	return enc(map[string]interface{}(ms)) + "\x1f" + string(xs) + "\x1f" + string(j)
}

// optdoc calls cast strconv tokens fin doc : the option history, then NewMapXml(doc, cast) -
// beside the decoder model configured from the state the option model reaches
func c18DocExec(op string) string {
	c, _ := newCur(op)
	calls := decCalls(c.val())
	cast := c.boolean()
	c.val()
	c.val()
	c.pos++
	doc := c.str()
	if c.err != nil {
		return "bad-op " + c.err.Error()
	}
	for _, cl := range calls {
		applyCall(cl)
	}
	m, err := mxj.NewMapXml([]byte(doc), cast)
	if err != nil {
		return "err " + xmlErrKind(err)
	}
	// a newly registered skip predicate replaces the previous one completely
	skipNote := ""
	if cast && len(m) > 0 {
		var k1, k2 string
		for k := range m {
			k1 = k
		}
		if sub, ok := m[k1].(map[string]interface{}); ok {
			for _, k := range sortedKeys(sub) {
				k2 = k
				break
			}
		}
		f1 := func(t string) bool { return t == k2 }
		f2 := func(t string) bool { return t == k1 }
		mxj.SetCheckTagToSkipFunc(f1)
		mxj.NewMapXml([]byte(doc), true)
		mxj.SetCheckTagToSkipFunc(f2)
		got, _ := mxj.NewMapXml([]byte(doc), true)
		mxj.SetCheckTagToSkipFunc(nil)
		mxj.SetCheckTagToSkipFunc(f2)
		want, _ := mxj.NewMapXml([]byte(doc), true)
		mxj.SetCheckTagToSkipFunc(nil)
		if enc(map[string]interface{}(got)) != enc(map[string]interface{}(want)) {
			skipNote = "SKIPHISTORY decoding under a skip predicate depends on the predicate registered before it"
		}
	}
	// the key prefix reaches every reserved key: with a prefix other than '#' no "#text" key
	note := ""
	if tk := mxj.VerifOptions()["textK"]; tk != "#text" && hasKeyAnywhere(map[string]interface{}(m), "#text") {
		note = fmt.Sprintf("KEYPREFIX the text key is %q but the decoded Map holds a \"#text\" key", tk)
	}
	if note == "" {
		note = skipNote
	}
	return "ok " + enc(map[string]interface{}(m)) + " | " + note
}

func c18Exec(op string) string {
	if strings.HasPrefix(op, "optdoc ") {
		return c18DocExec(op)
	}
	c, _ := newCur(op)
	calls := decCalls(c.val())
	if c.err != nil {
		return "bad-op " + c.err.Error()
	}
	if freshProbe == "" {
		resetOptions()
		freshProbe = probeAll()
	}
	notes := []string{}
	var dumps []string
	for i, cl := range calls {
		before := mxj.VerifOptions()
		castOpt := strings.HasPrefix(cl.name, "Cast") || cl.name == "SetCheckTagToSkipFunc"
		uncastBefore := ""
		if castOpt {
			uncastBefore = uncastProbe()
		}
		applyCall(cl)
		// the cast options do not affect decoding without the cast flag
		if castOpt && uncastProbe() != uncastBefore {
			notes = append(notes, fmt.Sprintf("UNCAST call %d (%s %v) changed what decoding WITHOUT the cast flag returns", i, cl.name, cl.arg))
		}
		dumps = append(dumps, dumpOptions())
		// explicit forms are idempotent
		if cl.arg != nil || cl.name == "XmlGoEmptyElemSyntax" || cl.name == "XmlDefaultEmptyElemSyntax" {
			once := dumpOptions()
			applyCall(cl)
			if dumpOptions() != once {
				notes = append(notes, fmt.Sprintf("call %d (%s %v) is not idempotent", i, cl.name, cl.arg))
			}
		}
		// the two escaping switches are never both on
		o := mxj.VerifOptions()
		// documented reset forms give the documented default
		switch {
		case cl.name == "SetFieldSeparator" && (cl.arg == nil || cl.arg == ""):
			if o["fieldSep"] != ":" {
				notes = append(notes, fmt.Sprintf("RESET SetFieldSeparator(%v) left the separator %q instead of the default", cl.arg, o["fieldSep"]))
			}
		case cl.name == "XmlDefaultEmptyElemSyntax":
			if o["useGoXmlEmptyElemSyntax"] != "false" {
				notes = append(notes, "RESET XmlDefaultEmptyElemSyntax() did not restore the default element syntax")
			}
		case cl.name == "PrependAttrWithHyphen" && cl.arg == true:
			if o["attrPrefix"] != "-" {
				notes = append(notes, "RESET PrependAttrWithHyphen(true) did not restore the hyphen prefix")
			}
		}
		// the sequence codec round-trips under every key prefix, whatever was encoded under an
		// earlier one (comment, processing instruction and directive included)
		if cl.name == "SetGlobalKeyMapPrefix" {
			doc := []byte(`<a x="1"><!--c--><?pi t?><!DOCTYPE d><b>1</b></a>`)
			if s, _ := cl.arg.(string); s != "_" {
				// elements named like the reserved keys of ANOTHER prefix are ordinary elements
				doc = []byte(`<a x="1"><!--c--><?pi t?><!DOCTYPE d><b>1</b><_comment>hi</_comment><_procinst>p</_procinst><_directive>d</_directive><_text>t</_text></a>`)
			}
			if ms, err := mxj.NewMapXmlSeq(doc); err == nil {
				xs, xerr := ms.Xml()
				want, _ := tokenStream(doc)
				if got, ok := tokenStream(xs); xerr != nil || !ok || got != want {
					notes = append(notes, fmt.Sprintf("KEYPREFIX after SetGlobalKeyMapPrefix(%v) the sequence codec no longer reproduces a document with a comment / instruction / directive: %s", cl.arg, clip(string(xs), 120)))
				}
			}
		}
		bystanders()
		// what a sub-key argument means depends on the separator in force NOW, not on what it
		// meant when the same argument was last used
		if cl.name == "SetFieldSeparator" {
			if n := sepProbe(o["fieldSep"]); n != "" {
				notes = append(notes, n)
			}
		}
		if o["xmlEscapeChars"] == "true" && o["xmlEscapeCharsDecoder"] == "true" {
			notes = append(notes, "both escaping switches are on")
		}
		// attribute prefix / case folding do not affect the sequence codec or JSON
		if cl.name == "SetAttrPrefix" || cl.name == "CoerceKeysToLower" || cl.name == "PrependAttrWithHyphen" {
			after := seqJsonProbe()
			// compare with the same probe under the previous value of exactly that option
			cur := mxj.VerifOptions()
			switch cl.name {
			case "CoerceKeysToLower":
				mxj.CoerceKeysToLower(before["lowerCase"] == "true")
			default:
				mxj.SetAttrPrefix(before["attrPrefix"])
			}
			prev := seqJsonProbe()
			switch cl.name {
			case "CoerceKeysToLower":
				mxj.CoerceKeysToLower(cur["lowerCase"] == "true")
			default:
				mxj.SetAttrPrefix(cur["attrPrefix"])
			}
			if prev != after {
				notes = append(notes, cl.name+" changed the behaviour of the sequence codec or of JSON")
			}
		}
	}
	resetOptions()
	final := dumpOptions()
	restored := "restored"
	if err := checkDefaults(); err != nil {
		restored = "NOT-restored"
		notes = append(notes, "restoring the defaults does not restore the fresh-process option values")
	} else if p := probeAll(); p != freshProbe {
		notes = append(notes, "after restoring the defaults a decoder/encoder/query behaves differently from a fresh process")
	}
	return "ok " + strings.Join(dumps, " ; ") + " | " + final + " | " + restored + " | " + strings.Join(notes, "; ")
}

func c18Describe(op string) string {
	c, _ := newCur(op)
	calls := decCalls(c.val())
	if strings.HasPrefix(op, "optdoc ") {
		cast := c.boolean()
		c.val()
		c.val()
		c.pos++
		var parts []string
		for _, cl := range calls {
			if cl.arg == nil {
				parts = append(parts, cl.name+"()")
			} else {
				parts = append(parts, fmt.Sprintf("%s(%#v)", cl.name, cl.arg))
			}
		}
		return fmt.Sprintf("option history: %s; then NewMapXml(%q, cast=%v)", strings.Join(parts, "; "), c.str(), cast)
	}
	var parts []string
	for _, cl := range calls {
		if cl.arg == nil {
			parts = append(parts, cl.name+"()")
		} else {
			parts = append(parts, fmt.Sprintf("%s(%#v)", cl.name, cl.arg))
		}
	}
	return "option history: " + strings.Join(parts, "; ") + "; then restore defaults"
}

func c18Judge(op, impl, model string) Verdict {
	if strings.HasPrefix(op, "optdoc ") {
		v := Verdict{Tags: []string{"optdoc"}}
		if strings.HasPrefix(model, "skip-") {
			v.Skipped, v.CorrOK = true, true
			return v
		}
		if strings.HasPrefix(impl, "panic") {
			v.OracleFail = "decoding after an option history panicked: " + impl
			v.Sig = "optdoc:panic"
			return v
		}
		ip := splitModel(impl)
		v.CorrOK = ip[0] == model
		v.Nontrivial = strings.HasPrefix(impl, "ok")
		if len(ip) > 1 && ip[1] != "" {
			v.OracleFail = ip[1]
			v.Sig = "optdoc:" + strings.ToLower(strings.Fields(ip[1])[0])
		}
		return v
	}
	v := Verdict{Tags: []string{"opts"}}
	if strings.HasPrefix(impl, "panic") {
		v.OracleFail = "option setter panicked: " + impl
		v.Sig = "opts:panic"
		return v
	}
	ip, mp := splitModel(impl), splitModel(model)
	v.CorrOK = len(ip) >= 3 && len(mp) >= 3 && ip[0] == mp[0] && ip[1] == mp[1] && ip[2] == mp[2]
	v.Nontrivial = strings.Contains(ip[0], " ; ")
	if len(ip) > 3 && ip[3] != "" {
		v.OracleFail = ip[3]
		v.Sig = "opts:" + strings.Join(strings.Fields(ip[3])[:3], "-")
	}
	return v
}

func c18Gen(r *Rng, n int) []string {
	boolSetters := []string{"IncludeTagSeqNum", "CoerceKeysToLower", "DisableTrimWhiteSpace", "CoerceKeysToSnakeCase", "CastValuesToInt", "HandleXMPPStreamTag", "DecodeSimpleValuesAsMap", "CastNanInf", "CastValuesToFloat", "CastValuesToBool", "XmlCheckIsValid", "XMLEscapeChars", "XMLEscapeCharsDecoder", "LeafUseDotNotation"}
	var ops []string
	for len(ops) < n {
		k := 1 + r.Intn(40)
		var cs []optCall
		for i := 0; i < k; i++ {
			switch x := r.Intn(100); {
			case x < 55:
				c := optCall{name: r.Pick(boolSetters)}
				if r.P(60) {
					c.arg = r.Bool()
				}
				cs = append(cs, c)
			case x < 63:
				cs = append(cs, optCall{"SetGlobalKeyMapPrefix", r.Pick([]string{"#", "%", "&", "_", "~", "+", "@", "!"})})
			case x < 71:
				cs = append(cs, optCall{"SetAttrPrefix", r.Pick([]string{"-", "@", "attr_", "", "A_", "é", "__"})})
			case x < 75:
				cs = append(cs, optCall{"PrependAttrWithHyphen", r.Bool()})
			case x < 80:
				cs = append(cs, optCall{"SetCheckTagToSkipFunc", r.Bool()})
			case x < 85:
				cs = append(cs, optCall{r.Pick([]string{"XmlGoEmptyElemSyntax", "XmlDefaultEmptyElemSyntax"}), nil})
			case x < 93:
				c := optCall{name: "SetFieldSeparator"}
				if r.P(70) {
					c.arg = r.Pick([]string{"|", "::", "", ":", "é"})
				}
				cs = append(cs, c)
			default:
				cs = append(cs, optCall{"SetArraySize", float64(r.Pick2(r.Intn(40), 33+r.Intn(100)))})
			}
			if r.P(10) && len(cs) > 0 {
				cs = append(cs, cs[len(cs)-1]) // repeated form
			}
		}
		if r.P(30) {
			// the state a history reaches has exactly the documented effect on decoding
			if len(cs) > 12 {
				cs = cs[:12]
			}
			var hist []optCall
			for _, cl := range cs {
				// (key prefixes are kept to punctuation; an empty or letter prefix is the subject
				// of the restore theorem's hypothesis, not of this tie)
				if cl.name == "SetGlobalKeyMapPrefix" {
					if p, _ := cl.arg.(string); p == "_" || p == "" {
						continue
					}
				}
				hist = append(hist, cl)
			}
			g := c01Gen0
			g.MaxDepth, g.MultiTextP = 2, 0
			var sb strings.Builder
			r.render(r.xmlDoc(&g), &sb)
			doc := sb.String()
			toks, fin := tokensOf([]byte(doc), false)
			ops = append(ops, fmt.Sprintf("optdoc %s %d %s %s %s %s", encCalls(hist), b2i(r.P(40)), strconvTable(leafTexts([]byte(doc))), toks, fin, encStr(doc)))
			continue
		}
		ops = append(ops, "opts "+encCalls(cs))
	}
	return ops
}

func init() {
	register(&Prop{
		ID:        "C18",
		Rule:      "histories of 1-40 option-setter calls (explicit values, argument-less / toggling forms, immediate repetitions; single-character punctuation key prefixes; attribute prefixes incl. empty, upper-case and non-ASCII; both escaping switches in either order); after every call the option variables (hook dump) are compared with the Lean state machine, explicit forms are re-applied to test idempotence, prefix/case setters are probed against the sequence codec and JSON; finally the defaults are restored and a fixed battery of decode/encode/query calls is compared with a fresh process; non-trivial = history of at least 2 calls; distinct = distinct op lines",
		Gen:       c18Gen,
		Exec:      c18Exec,
		Judge:     c18Judge,
		Describe:  c18Describe,
		QuickN:    1000,
		ThoroughN: 50000,
	})
}
