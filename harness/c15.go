package main

// c15.go - totality: every decoder on arbitrary bytes, every string-argument API on arbitrary
// Maps and hostile strings.  Implementation side runs in child processes (a stack overflow or
// a hang costs one case).  Any panic, crash or hang is a counterexample by itself.

import (
	"encoding/json"
	"bytes"
	"encoding/xml"
	"fmt"
	"io"
	"strings"

	mxj "github.com/clbanning/mxj/v2"
)

// refFirstDoc: does the standard tokenizer accept the first document of b?
// (raw=false: Token; raw=true: RawToken with explicit nesting check)
func refFirstDoc(b []byte, raw bool) (ok bool, noRoot bool) {
	d := xml.NewDecoder(bytes.NewReader(b))
	depth := 0
	var stack []string
	for {
		var t xml.Token
		var err error
		if raw {
			t, err = d.RawToken()
		} else {
			t, err = d.Token()
		}
		if err != nil {
			return false, false
		}
		switch x := t.(type) {
		case xml.StartElement:
			depth++
			stack = append(stack, x.Name.Space+":"+x.Name.Local)
		case xml.EndElement:
			if raw {
				if len(stack) == 0 || stack[len(stack)-1] != x.Name.Space+":"+x.Name.Local {
					return false, false
				}
				stack = stack[:len(stack)-1]
			}
			depth--
			if depth <= 0 {
				return depth == 0, false
			}
		case xml.Comment, xml.Directive, xml.ProcInst:
			if raw && depth == 0 {
				return true, true // the sequence decoder's documented no-root result
			}
		}
	}
}

var decAPIs = []string{"NewMapXml", "NewMapXmlReader", "NewMapXmlReaderRaw", "HandleXmlReader", "NewMapXmlSeq", "NewMapFormattedXmlSeq", "NewMapXmlSeqReader", "NewMapXmlSeqReaderRaw", "BeautifyXml", "NewMapJson", "NewMapJsonReader", "NewMapJsonReaderRaw", "HandleJsonReader", "HandleJsonReaderRaw", "NewMapGob", "NewMapsFromXmlFile", "NewMapsFromJsonFile"}

func c15Exec(op string) string {
	c, _ := newCur(op)
	kind := c.toks[c.pos]
	c.pos++
	switch kind {
	case "dec":
		api := c.str()
		data := []byte(c.str())
		o := c.decOpt()
		if c.err != nil {
			return "bad-op " + c.err.Error()
		}
		o.apply()
		return c15Decode(api, data, o)
	case "query":
		m := c.mapVal()
		path := c.str()
		key := c.str()
		subs := c.strList()
		pairs := c.strList()
		nv := c.val()
		if c.err != nil {
			return "bad-op " + c.err.Error()
		}
		return c15Query(m, path, key, subs, pairs, nv)
	}
	return "bad-op"
}

func c15Decode(api string, data []byte, o DecOpt) string {
	notes := []string{}
	isXML := strings.Contains(api, "Xml") && !strings.Contains(api, "File")
	isSeq := strings.Contains(api, "Seq") || api == "BeautifyXml"
	var m map[string]interface{}
	var ms mxj.MapSeq
	var err error
	switch api {
	case "NewMapXml":
		m, err = mxj.NewMapXml(data, o.Cast)
	case "NewMapXmlReader":
		m, err = mxj.NewMapXmlReader(bytes.NewReader(data), o.Cast)
	case "NewMapXmlReaderRaw":
		m, _, err = mxj.NewMapXmlReaderRaw(bytes.NewReader(data), o.Cast)
	case "HandleXmlReader":
		n := 0
		err = mxj.HandleXmlReader(bytes.NewReader(data), func(mm mxj.Map) bool { n++; return n < 50 }, func(error) bool { return false })
		return "ok | "
	case "NewMapXmlSeq":
		ms, err = mxj.NewMapXmlSeq(data, o.Cast)
	case "NewMapFormattedXmlSeq":
		ms, err = mxj.NewMapFormattedXmlSeq(data, o.Cast)
		return "ok | " // the formatting pre-pass changes the bytes: only totality is claimed
	case "NewMapXmlSeqReader":
		ms, err = mxj.NewMapXmlSeqReader(bytes.NewReader(data), o.Cast)
	case "NewMapXmlSeqReaderRaw":
		ms, _, err = mxj.NewMapXmlSeqReaderRaw(bytes.NewReader(data), o.Cast)
	case "BeautifyXml":
		_, err = mxj.BeautifyXml(data, "", " ")
		return "ok | "
	case "NewMapJson":
		m, err = mxj.NewMapJson(data)
	case "NewMapJsonReader":
		m, err = mxj.NewMapJsonReader(bytes.NewReader(data))
	case "NewMapJsonReaderRaw":
		m, _, err = mxj.NewMapJsonReaderRaw(bytes.NewReader(data))
	case "HandleJsonReader":
		n := 0
		mxj.HandleJsonReader(bytes.NewReader(data), func(mm mxj.Map) bool { n++; return n < 50 }, func(error) bool { return false })
		return "ok | "
	case "HandleJsonReaderRaw":
		n := 0
		mxj.HandleJsonReaderRaw(bytes.NewReader(data), func(mm mxj.Map, r []byte) bool { n++; return n < 50 }, func(error, []byte) bool { return false })
		return "ok | "
	case "NewMapGob":
		m, err = mxj.NewMapGob(data)
		return "ok | "
	case "NewMapsFromXmlFile", "NewMapsFromJsonFile":
		f := scratch() + "/tot"
		if werr := writeFile(f, data); werr != nil {
			return "bad-gen"
		}
		if api == "NewMapsFromXmlFile" {
			mxj.NewMapsFromXmlFile(f)
			mxj.NewMapsFromXmlFileRaw(f)
		} else {
			mxj.NewMapsFromJsonFile(f)
			mxj.NewMapsFromJsonFileRaw(f)
		}
		return "ok | "
	}
	if ms != nil {
		m = ms
	}
	if isXML {
		ok, noRoot := refFirstDoc(data, isSeq)
		switch {
		case noRoot:
			if err != mxj.NoRoot {
				notes = append(notes, "expected the documented no-root result")
			}
		case ok && err != nil:
			notes = append(notes, "the tokenizer accepts the first document but the decoder failed: "+oneLine(err.Error()))
		case !ok && err == nil:
			notes = append(notes, "the tokenizer rejects the first document but the decoder returned a Map")
		case !ok && m != nil && len(m) > 0:
			notes = append(notes, "an error was returned together with a partial Map")
		}
	} else if err != nil && m != nil && len(m) > 0 {
		notes = append(notes, "an error was returned together with a partial Map")
	}
	// the JSON reader forms accept a stream that starts with an object encoding/json accepts
	if api == "NewMapJsonReader" || api == "NewMapJsonReaderRaw" {
		if t := bytes.TrimLeft(data, " \t\r\n"); len(t) > 0 && t[0] == '{' {
			var ref map[string]interface{}
			if rerr := json.NewDecoder(bytes.NewReader(t)).Decode(&ref); rerr == nil && ref != nil {
				if err != nil {
					notes = append(notes, "JSONFIRST encoding/json accepts the first object of the stream but "+api+" failed: "+oneLine(err.Error()))
				} else if !deepEq(ref, m) {
					notes = append(notes, "JSONFIRST "+api+" returned a different Map than encoding/json for the first object of the stream")
				}
			}
		}
	}
	// NewMapJson fails exactly when the standard tokenizer rejects the FIRST value (what follows it is
	// not its business) or that value is neither an object nor an array
	if api == "NewMapJson" {
		var ref interface{}
		rerr := json.NewDecoder(bytes.NewReader(data)).Decode(&ref)
		_, isObj := ref.(map[string]interface{})
		_, isArr := ref.([]interface{})
		switch {
		case rerr == nil && isArr && err != nil:
			// (F-JSON-ARRAYTAIL, repaired: the array is decoded on its own, what follows it is not looked at)
			notes = append(notes, "JSONFIRST encoding/json accepts the first value (an array) but NewMapJson failed: "+oneLine(err.Error()))
		case rerr == nil && isArr && !deepEq(m, map[string]interface{}{"object": ref}):
			notes = append(notes, "JSONFIRST NewMapJson did not return {\"object\": first value} for a text whose first value is an array")
		case rerr == nil && isObj && err != nil:
			notes = append(notes, "JSONFIRST encoding/json accepts the first value (an object) but NewMapJson failed: "+oneLine(err.Error()))
		case rerr != nil && err == nil && len(data) > 0: // ("empty or nil begets empty" is documented)
			notes = append(notes, "JSONFIRST encoding/json rejects the first value but NewMapJson returned a Map")
		}
	}
	// every Map produced by a decoder can be passed to the corresponding encoder
	if err == nil && m != nil {
		if isSeq {
			mxj.MapSeq(m).Xml()
			mxj.MapSeq(m).XmlIndent("", " ")
		} else {
			mxj.Map(m).Xml()
			mxj.Map(m).XmlIndent("", " ")
			mxj.Map(m).Json()
		}
	}
	return "ok | " + strings.Join(notes, "; ")
}

func c15Query(m map[string]interface{}, path, key string, subs, pairs []string, nv interface{}) string {
	mv := mxj.Map(m)
	mv.ValuesForPath(path, subs...)
	mv.ValueForPath(path)
	mv.ValueForPathString(path)
	mv.ValueOrEmptyForPathString(path)
	mv.Exists(path, subs...)
	mv.ValuesForKey(key, subs...)
	mv.ValueForKey(key, subs...)
	mv.PathsForKey(key)
	mv.PathForKeyShortest(key)
	mv.LeafNodes()
	mv.LeafNodes(true)
	mv.LeafPaths()
	mv.LeafValues()
	mv.Elements(path)
	mv.Attributes(path)
	mv.NewMap(pairs...)
	c1 := mxj.Map(deepCopy(m).(map[string]interface{}))
	c1.UpdateValuesForPath(deepCopy(nv), path, subs...)
	c2 := mxj.Map(deepCopy(m).(map[string]interface{}))
	c2.UpdateValuesForPath(key+":"+path, path, subs...)
	c3 := mxj.Map(deepCopy(m).(map[string]interface{}))
	c3.SetValueForPath(deepCopy(nv), path)
	c4 := mxj.Map(deepCopy(m).(map[string]interface{}))
	c4.Remove(path)
	c5 := mxj.Map(deepCopy(m).(map[string]interface{}))
	c5.RenameKey(path, key)
	return "ok | "
}

func c15Describe(op string) string {
	c, _ := newCur(op)
	kind := c.toks[c.pos]
	c.pos++
	if kind == "dec" {
		api := c.str()
		data := c.str()
		o := c.decOpt()
		return fmt.Sprintf("%s(%q) options=%+v", api, data, o)
	}
	m := c.mapVal()
	path := c.str()
	key := c.str()
	subs := c.strList()
	pairs := c.strList()
	return fmt.Sprintf("all query/update methods on map=%s path=%q key=%q subkeys=%q keypairs=%q newVal=%s", jsonOf(m), path, key, subs, pairs, jsonOf(c.val()))
}

func c15Judge(op, impl, model string) Verdict {
	c, _ := newCur(op)
	v := Verdict{Tags: []string{"tot:" + c.toks[c.pos]}, CorrOK: true, Nontrivial: true}
	if strings.HasPrefix(impl, "panic") || strings.HasPrefix(impl, "crash") {
		v.OracleFail = "not total: " + impl
		v.Sig = "tot:" + strings.Fields(impl)[0]
		return v
	}
	if strings.HasPrefix(impl, "bad-") {
		v.Skipped = true
		return v
	}
	ip := splitModel(impl)
	if len(ip) > 1 && ip[1] != "" {
		v.OracleFail = ip[1]
		v.Sig = "tot:" + strings.Join(strings.Fields(ip[1])[:3], "-")
	}
	return v
}

var hostilePaths = []string{"", ".", "..", "a.", ".a", "a..b", "*", "*.*", "a[0]", "a[-1]", "a[", "a[]", "a[x]", "a]0[", "a[99999999999]", "a[1][2]", "[0]", "a.[0]", "*[0]", "a[0].", "a.*[1].b", "a[2147483648]", "a[9223372036854775807]", "a[9223372036854775806]", "a[2147483647]", "a[4294967296]", "a[18446744073709551615]", "a[0x1]", "a[+1]", "a[ 1]", "a[1", "a.b.c.d.e", "a\x00b", "é[0]", "a.*", "*.a"}
var hostileSubs = []string{":x", "a:", ":", "", "a", "a:b:c:d", "a:b:weird", "!:x", "!", "a:*", "!a:*", "a:1:bool", "a:x:bool", "a:x:float", "::", "a::", ":a:b"}
var hostilePairs = []string{"", ":", "a:", ":a", "a:b:c", "a:b*", "a:b[0]", "a", "a:.", "*:x", "a[-1]:x", "a[:x", ".:.", "a:b.", "*", "a.*:x.y"}

func c15Gen(r *Rng, n int) []string {
	seedDocs := []string{
		"<a>x</a>", "<a x=\"1\"><b>t</b><b/></a>", "<?xml version=\"1.0\"?><r><!--c--><a>1</a>t</r>", "<a><![CDATA[x]]></a>",
		"</a>", "<a></b>", "<a>", "<a x=1>", "<a x=\"1\" x=\"2\"/>", "lead<a/>", "<!-- c --><a/>", "<?pi x?><a/>", "<!DOCTYPE d><a/>", "<a/><b/>",
		"{\"a\":1}", "{\"a\":{\"b\":[1,2,{\"c\":\"}\"}]}}", "}", "{", "{\"a\":\"x\\\"}", "[1,2]", "null", "{}{}", "\"", "{\"a\":1}}", " ", "",
		"<a>\xff\xfe</a>", "\xff\xfe\x00", "\x00\x00\xfe", "\xff\xfe", "\xfe\xff", "\xff\xfe\x00\x00", "\x00\x00\xfe\xff", "\xef\xbb\xbf", "\xef\xbb", "\xef\xbb\xbf<a/>", "\xef\xbb\xbf{\"a\":1}", "\xff", "\x00", "{\"a\":\"\xc3\"}", "<a xmlns:b=\"u\"><b:c b:d=\"1\"/></a>", "<stream:stream to=\"x\">",
	}
	var ops []string
	for len(ops) < n {
		if r.P(60) {
			d := r.Pick(seedDocs)
			if r.P(35) {
				g := c01Gen0
				var sb strings.Builder
				r.render(r.xmlDoc(&g), &sb)
				d = sb.String()
			} else if r.P(20) {
				d = r.jsonStreamDoc()
			}
			if r.P(15) {
				// something after the first document: another document, a stray closer, junk
				d += r.Pick([]string{"", " ", "\n"}) + r.Pick([]string{r.Pick(seedDocs), "}", "]", "x", "</a>", "{\"z\":1}", "<z/>"})
			}
			b := []byte(d)
			switch r.Intn(5) {
			case 0:
				if len(b) > 0 {
					b = b[:r.Intn(len(b)+1)]
				}
			case 1:
				if len(b) > 0 {
					i := r.Intn(len(b))
					b = append(append(append([]byte{}, b[:i]...), []byte(r.Pick([]string{"<", ">", "&", "\"", "'", "/", "}", "{", "\\", "\x00", "\xff", "]]>", "<!--", "</x>", "="}))...), b[i+1:]...)
				}
			case 2:
				if len(b) > 1 {
					i := r.Intn(len(b))
					b = append(append([]byte{}, b[:i]...), b[i+1:]...)
				}
			}
			o := r.decOpt(true)
			api := r.Pick(decAPIs)
			if r.P(60) {
				// mostly the decoders of the document's own kind
				jsonish := len(d) > 0 && strings.ContainsAny(d[:1], "{[\"}] \xef") && !strings.Contains(d, "<")
				for try := 0; try < 8 && strings.Contains(api, "Json") != jsonish; try++ {
					api = r.Pick(decAPIs)
				}
			}
			ops = append(ops, fmt.Sprintf("implonly dec %s %s %s", encStr(api), encStr(string(b)), o.enc()))
		} else {
			cfg := jsonShape
			cfg.Keys = keyAlpha
			cfg.OddKeys = true
			cfg.ListInList = true
			cfg.MaxDepth = 3
			m := r.RootMap(&cfg)
			path := r.Pick(hostilePaths)
			if r.P(40) {
				path = r.DerivedPath(m, true, 3)
				if r.P(40) {
					path += r.Pick([]string{".", "[", "[-1]", ".*", "[0]", "..", "[x]"})
				}
			}
			key := r.Pick([]string{"", "*", "a", ".", "[0]", "!", "-", "a.b", "k"})
			var subs, pairs []string
			if r.P(50) {
				subs = append(subs, r.Pick(hostileSubs))
				if r.P(30) {
					subs = append(subs, r.Pick(hostileSubs))
				}
			}
			for i := r.Intn(3); i > 0; i-- {
				pairs = append(pairs, r.Pick(hostilePairs))
			}
			var nv interface{} = map[string]interface{}{key: "v"}
			switch r.Intn(5) {
			case 0:
				nv = r.Pick([]string{"", ":", "a:b:c:d", "k:v:bool", "k:1:num", "k:x:num", "novalue"})
			case 1:
				nv = map[string]interface{}{}
			case 2:
				nv = 3.0
			}
			ops = append(ops, fmt.Sprintf("implonly query %s %s %s %s %s %s", enc(m), encStr(path), encStr(key), encStrList(subs), encStrList(pairs), enc(nv)))
		}
	}
	return ops
}

func writeFile(name string, data []byte) error {
	return osWriteFile(name, data)
}

var _ = io.EOF

func init() {
	register(&Prop{
		ID:        "C15",
		Rule:      "byte inputs: seed documents (well-formed XML/JSON, stray end tags, unbalanced braces, prologs, invalid UTF-8, XMPP stream tags) and generated documents, intact or truncated at a random offset, with one byte replaced by a hostile sequence, or with one byte deleted, through 17 decoder entry points (string, reader, raw, bulk, file, gob, BeautifyXml) under random decoder options; argument strings: hostile paths (empty segments, negative/huge/unterminated indexes), sub-keys (empty names, extra separators), key pairs and new values applied through every query/update method to Maps with odd keys (empty, '.', '[0]', '*') and lists in lists; each case runs in a child process; non-trivial = every case; distinct = distinct op lines",
		Gen:       c15Gen,
		Exec:      c15Exec,
		Judge:     c15Judge,
		Describe:  c15Describe,
		QuickN:    8000,
		ThoroughN: 500000,
		Isolate:   true,
	})
}
