package main

// c05enc.go - the encoder-level clauses of C05: four XML encoders (Map / MapSeq x compact /
// indent) x three escaping modes (off, encoder-side, decoder-side) x validity check on/off.

import (
	"encoding/xml"
	"fmt"
	"io"
	"sort"
	"strings"

	mxj "github.com/clbanning/mxj/v2"
)

// hostileLeaves replaces string leaves of a Map by hostile strings (element, attribute and
// mixed-content positions alike).
func (r *Rng) hostileLeaves(v interface{}) interface{} {
	switch x := v.(type) {
	case map[string]interface{}:
		o := map[string]interface{}{}
		for k, e := range x {
			o[k] = r.hostileLeaves(e)
		}
		return o
	case []interface{}:
		o := make([]interface{}, len(x))
		for i, e := range x {
			o[i] = r.hostileLeaves(e)
		}
		return o
	case string:
		if r.P(60) {
			return strings.TrimSpace(r.hostile(4))
		}
		return x
	}
	return v
}

func wellFormedAll(b []byte) bool {
	ok, _ := wellFormedSingleRoot(b)
	return ok
}

// implonly enc4 mode valid map seqmap
func c05encExec(c *cur) string {
	op0 := strings.Join(c.toks, " ")
	mode := c.nat() // 0 off, 1 encoder-side, 2 decoder-side
	valid := c.boolean()
	m := c.mapVal()
	sm := c.mapVal()
	doc := ""
	if c.pos < len(c.toks) {
		doc = c.str()
	}
	if c.err != nil {
		return "bad-op " + c.err.Error()
	}
	switch mode {
	case 1:
		mxj.XMLEscapeChars(true)
	case 2:
		mxj.XMLEscapeCharsDecoder(true)
	case 3:
		// decoder-side escaping requested first, then the toggle form of the encoder switch:
		// the two are documented as mutually exclusive, decoder-side escaping stays in force
		mxj.XMLEscapeCharsDecoder(true)
		mxj.XMLEscapeChars()
	case 4:
		// encoder-side first, then decoder-side requested explicitly: decoder-side wins
		mxj.XMLEscapeChars(true)
		mxj.XMLEscapeCharsDecoder(true)
	}
	decoderMode := mode >= 2
	if mode > 2 {
		mode = 2
	}
	mxj.XmlCheckIsValid(valid)
	bystanders()
	notes := []string{}
	// decoder-side escaping: decode followed by encode reproduces the original escaped values
	if decoderMode && doc != "" {
		// the same with the cast flag on and every tag exempted from casting (Map decoder; the values
		// stay strings; escaping is not a cast and must not depend on the exemption)
		castSkip := len(op0)%3 == 0
		if castSkip {
			mxj.SetCheckTagToSkipFunc(func(string) bool { return true })
			defer mxj.SetCheckTagToSkipFunc(nil)
		}
		for _, seq := range []bool{false, true} {
			var m1, m2 map[string]interface{}
			var x []byte
			var e1, e2, e3 error
			if seq {
				var a, b mxj.MapSeq
				a, e1 = mxj.NewMapXmlSeq([]byte(doc))
				if e1 == nil {
					x, e2 = a.Xml()
					b, e3 = mxj.NewMapXmlSeq(x)
				}
				m1, m2 = a, b
			} else {
				var a, b mxj.Map
				a, e1 = mxj.NewMapXml([]byte(doc), castSkip)
				if e1 == nil {
					x, e2 = a.Xml()
					b, e3 = mxj.NewMapXml(x, castSkip)
				}
				m1, m2 = a, b
			}
			if e1 != nil {
				continue
			}
			// (the sequence numbers of a MapSeq also record where mixed text stood, which the
			// encoder normalises: for the sequence codec only the values are compared)
			if e2 != nil || e3 != nil || (!seq && enc(m1) != enc(m2)) {
				notes = append(notes, fmt.Sprintf("DECODERMODE decode-encode-decode under decoder-side escaping (seq=%v) does not reproduce the values (%v %v): first %s second %s xml %s", seq, e2, e3, clip(enc(m1), 300), clip(enc(m2), 300), clip(string(x), 200)))
				break
			}
			if !valuesSame(doc, string(x)) {
				notes = append(notes, fmt.Sprintf("DECODERMODE the re-encoded document (seq=%v) carries different escaped values than the original: %s", seq, clip(string(x), 200)))
				break
			}
		}
	}
	if valid && len(op0)%4 == 0 {
		// a lenient custom decoder is a decoder option (set only now: it reads HTML element names
		// such as <br> and <meta> differently); the post-encode validity check of the encoders stays
		// strict (well-formed output or an error)
		mxj.CustomDecoder = &xml.Decoder{Strict: false, AutoClose: xml.HTMLAutoClose, Entity: xml.HTMLEntity}
		defer func() { mxj.CustomDecoder = nil }()
	}
	type encRes struct {
		name string
		b    []byte
		err  error
		seq  bool
	}
	var rs []encRes
	b, err := mxj.Map(m).Xml()
	rs = append(rs, encRes{"Map.Xml", b, err, false})
	b, err = mxj.Map(m).XmlIndent("", "  ")
	rs = append(rs, encRes{"Map.XmlIndent", b, err, false})
	b, err = mxj.MapSeq(sm).Xml()
	rs = append(rs, encRes{"MapSeq.Xml", b, err, true})
	b, err = mxj.MapSeq(sm).XmlIndent("", "  ")
	rs = append(rs, encRes{"MapSeq.XmlIndent", b, err, true})
	// A Map whose only key holds a list of Maps is written, by design, as one element per member
	// (a sequence of documents that NewMapXmlReader reads back one by one): the number of root
	// elements is then not a matter of value characters, and is not judged here.
	rootList := false
	if len(m) == 1 {
		for _, v := range m {
			if l, ok := v.([]interface{}); ok {
				rootList = true
				for _, e := range l {
					if _, isMap := e.(map[string]interface{}); !isMap {
						rootList = false
					}
				}
			}
		}
	}
	for _, e := range rs {
		wf := e.err == nil && wellFormedAll(e.b)
		if !wf && e.err == nil && rootList && !e.seq {
			if _, why := wellFormedSingleRoot(e.b); strings.HasSuffix(why, "root elements") {
				wf = true
			}
		}
		switch {
		case mode == 1:
			// encoder-side escaping: always well formed, values decode back exactly
			if e.err != nil {
				notes = append(notes, e.name+" failed with escaping on: "+oneLine(e.err.Error()))
			} else if !wf {
				notes = append(notes, e.name+" output is not well formed with escaping on: "+clip(string(e.b), 160))
			} else if !e.seq {
				back, derr := mxj.NewMapXml(e.b)
				want := imageDoc(1, m, "doc", "")
				if len(m) == 1 {
					want = imageDoc(0, m, "", "")
				}
				if want != nil && (derr != nil || enc(map[string]interface{}(back)) != enc(want)) {
					notes = append(notes, e.name+": values do not decode back exactly")
				}
			} else {
				back, derr := mxj.NewMapXmlSeq(e.b)
				if derr != nil || (strings.HasSuffix(e.name, ".Xml") && enc(map[string]interface{}(back)) != enc(sm)) {
					notes = append(notes, e.name+": the MapSeq does not decode back exactly")
				}
			}
		case valid:
			// escaping off (or decoder-side on values that were not decoded that way) + validity
			// check: well-formed output or an error, never silently malformed
			if e.err == nil && !wf {
				notes = append(notes, "VALIDITY "+e.name+" returned malformed XML and no error although XmlCheckIsValid is on: "+clip(string(e.b), 160))
			}
		}
	}
	return "ok | " + strings.Join(notes, "; ")
}

// valuesSame: the multiset of character-data runs and attribute values (as the tokenizer
// delivers them, blank runs dropped) of two documents.
func valuesSame(a, b string) bool {
	collect := func(s string) (string, bool) {
		d := xml.NewDecoder(strings.NewReader(s))
		var vals []string
		run := ""
		flush := func() {
			if t := strings.TrimSpace(run); t != "" {
				vals = append(vals, "T"+t)
			}
			run = ""
		}
		for {
			t, err := d.RawToken()
			if err == io.EOF {
				break
			}
			if err != nil {
				return "", false
			}
			switch x := t.(type) {
			case xml.CharData:
				run += string(x)
			case xml.StartElement:
				flush()
				for _, at := range x.Attr {
					vals = append(vals, "A"+at.Value)
				}
			default:
				flush()
			}
		}
		flush()
		sort.Strings(vals)
		return strings.Join(vals, "\x00"), true
	}
	va, oka := collect(a)
	vb, okb := collect(b)
	return oka && okb && va == vb
}

func c05encGen(r *Rng) string {
	mode := r.Intn(3)
	m := map[string]interface{}{"r": r.hostileLeaves(r.c03Map(1))}
	if mode != 1 && r.P(40) {
		// the validity clause holds for every Map shape: root-level shapes the image oracle of
		// mode 1 does not cover (single key with a scalar / list of scalars / mixed list, several
		// root keys, attribute or text keys at the root)
		switch r.Intn(4) {
		case 0:
			l := []interface{}{}
			for i := 0; i < 1+r.Intn(3); i++ {
				if r.P(70) {
					l = append(l, strings.TrimSpace(r.hostile(4)))
				} else {
					l = append(l, r.hostileLeaves(r.c03Map(1)))
				}
			}
			m = map[string]interface{}{r.Pick(xmlValueNames): l}
		case 1:
			m = map[string]interface{}{r.Pick(xmlValueNames): strings.TrimSpace(r.hostile(4))}
		default:
			m = r.hostileLeaves(r.c03Map(0)).(map[string]interface{})
		}
	}
	// a MapSeq with hostile values: decode a generated document, then replace the leaves
	g := c01Gen0
	g.SeqShape, g.Comments, g.MaxDepth = true, false, 2
	var sb strings.Builder
	r.render(r.xmlDoc(&g), &sb)
	ms, err := mxj.NewMapXmlSeq([]byte(sb.String()))
	var sm map[string]interface{} = map[string]interface{}{"a": map[string]interface{}{"#text": "x<y", "#seq": 0}}
	if err == nil {
		sm = seqHostile(r, map[string]interface{}(ms)).(map[string]interface{})
	}
	docArg := ""
	if r.P(35) {
		// the decoder-side clause: a document with escaped values, options requested in the
		// histories 2, 3 (toggle form) and 4 (encoder switch first)
		mode = 2 + r.Intn(3)
		g2 := c01Gen0
		g2.Comments, g2.MultiTextP, g2.MaxDepth, g2.Namespaces = false, 0, 2, false
		var sb2 strings.Builder
		r.render(r.xmlDoc(&g2), &sb2)
		docArg = " " + encStr(sb2.String())
	}
	if mode != 1 && r.P(15) {
		// a MapSeq whose single root key holds a one-member list of a bare string
		sm = map[string]interface{}{r.Pick(xmlValueNames): []interface{}{strings.TrimSpace(r.hostile(4))}}
	}
	return fmt.Sprintf("implonly enc4 %d %d %s %s", mode, b2i(r.P(60)), enc(m), enc(sm)) + docArg
}

// seqHostile replaces "#text" strings of a MapSeq.
func seqHostile(r *Rng, v interface{}) interface{} {
	switch x := v.(type) {
	case map[string]interface{}:
		o := map[string]interface{}{}
		for k, e := range x {
			if s, ok := e.(string); ok && k == "#text" && s != "" && r.P(60) {
				h := strings.TrimSpace(r.hostile(4))
				if h == "" {
					h = "&"
				}
				o[k] = h
			} else {
				o[k] = seqHostile(r, e)
			}
		}
		return o
	case []interface{}:
		o := make([]interface{}, len(x))
		for i, e := range x {
			o[i] = seqHostile(r, e)
		}
		return o
	}
	return v
}
