package main

// c05enc.go - the encoder-level clauses of C05: four XML encoders (Map / MapSeq x compact /
// indent) x three escaping modes (off, encoder-side, decoder-side) x validity check on/off.

import (
	"fmt"
	"strings"

	mxj "github.com/clbanning/mxj/v2"
)

// hostileLeaves replaces string leaves of a Map by hostile strings (element, attribute and
// mixed-content positions alike).
func (r *Rng) hostileLeaves(v interface{}) interface{} {
	switch x := v.(type) {
	case map[string]interface{}:
		o := map[string]interface{}{}
		for k, e := range x {
			o[k] = r.hostileLeaves(e)
		}
		return o
	case []interface{}:
		o := make([]interface{}, len(x))
		for i, e := range x {
			o[i] = r.hostileLeaves(e)
		}
		return o
	case string:
		if r.P(60) {
			return strings.TrimSpace(r.hostile(4))
		}
		return x
	}
	return v
}

func wellFormedAll(b []byte) bool {
	ok, _ := wellFormedSingleRoot(b)
	return ok
}

// implonly enc4 mode valid map seqmap
func c05encExec(c *cur) string {
	mode := c.nat() // 0 off, 1 encoder-side, 2 decoder-side
	valid := c.boolean()
	m := c.mapVal()
	sm := c.mapVal()
	if c.err != nil {
		return "bad-op " + c.err.Error()
	}
	switch mode {
	case 1:
		mxj.XMLEscapeChars(true)
	case 2:
		mxj.XMLEscapeCharsDecoder(true)
	}
	mxj.XmlCheckIsValid(valid)
	notes := []string{}
	type encRes struct {
		name string
		b    []byte
		err  error
		seq  bool
	}
	var rs []encRes
	b, err := mxj.Map(m).Xml()
	rs = append(rs, encRes{"Map.Xml", b, err, false})
	b, err = mxj.Map(m).XmlIndent("", "  ")
	rs = append(rs, encRes{"Map.XmlIndent", b, err, false})
	b, err = mxj.MapSeq(sm).Xml()
	rs = append(rs, encRes{"MapSeq.Xml", b, err, true})
	b, err = mxj.MapSeq(sm).XmlIndent("", "  ")
	rs = append(rs, encRes{"MapSeq.XmlIndent", b, err, true})
	// A Map whose only key holds a list of Maps is written, by design, as one element per member
	// (a sequence of documents that NewMapXmlReader reads back one by one): the number of root
	// elements is then not a matter of value characters, and is not judged here.
	rootList := false
	if len(m) == 1 {
		for _, v := range m {
			if l, ok := v.([]interface{}); ok {
				rootList = true
				for _, e := range l {
					if _, isMap := e.(map[string]interface{}); !isMap {
						rootList = false
					}
				}
			}
		}
	}
	for _, e := range rs {
		wf := e.err == nil && wellFormedAll(e.b)
		if !wf && e.err == nil && rootList && !e.seq {
			if _, why := wellFormedSingleRoot(e.b); strings.HasSuffix(why, "root elements") {
				wf = true
			}
		}
		switch {
		case mode == 1:
			// encoder-side escaping: always well formed, values decode back exactly
			if e.err != nil {
				notes = append(notes, e.name+" failed with escaping on: "+oneLine(e.err.Error()))
			} else if !wf {
				notes = append(notes, e.name+" output is not well formed with escaping on: "+clip(string(e.b), 160))
			} else if !e.seq {
				back, derr := mxj.NewMapXml(e.b)
				want := imageDoc(1, m, "doc", "")
				if len(m) == 1 {
					want = imageDoc(0, m, "", "")
				}
				if want != nil && (derr != nil || enc(map[string]interface{}(back)) != enc(want)) {
					notes = append(notes, e.name+": values do not decode back exactly")
				}
			} else {
				back, derr := mxj.NewMapXmlSeq(e.b)
				if derr != nil || (strings.HasSuffix(e.name, ".Xml") && enc(map[string]interface{}(back)) != enc(sm)) {
					notes = append(notes, e.name+": the MapSeq does not decode back exactly")
				}
			}
		case valid:
			// escaping off (or decoder-side on values that were not decoded that way) + validity
			// check: well-formed output or an error, never silently malformed
			if e.err == nil && !wf {
				notes = append(notes, "VALIDITY "+e.name+" returned malformed XML and no error although XmlCheckIsValid is on: "+clip(string(e.b), 160))
			}
		}
	}
	return "ok | " + strings.Join(notes, "; ")
}

func c05encGen(r *Rng) string {
	mode := r.Intn(3)
	m := map[string]interface{}{"r": r.hostileLeaves(r.c03Map(1))}
	if mode != 1 && r.P(40) {
		// the validity clause holds for every Map shape: root-level shapes the image oracle of
		// mode 1 does not cover (single key with a scalar / list of scalars / mixed list, several
		// root keys, attribute or text keys at the root)
		switch r.Intn(4) {
		case 0:
			l := []interface{}{}
			for i := 0; i < 1+r.Intn(3); i++ {
				if r.P(70) {
					l = append(l, strings.TrimSpace(r.hostile(4)))
				} else {
					l = append(l, r.hostileLeaves(r.c03Map(1)))
				}
			}
			m = map[string]interface{}{r.Pick(xmlValueNames): l}
		case 1:
			m = map[string]interface{}{r.Pick(xmlValueNames): strings.TrimSpace(r.hostile(4))}
		default:
			m = r.hostileLeaves(r.c03Map(0)).(map[string]interface{})
		}
	}
	// a MapSeq with hostile values: decode a generated document, then replace the leaves
	g := c01Gen0
	g.SeqShape, g.Comments, g.MaxDepth = true, false, 2
	var sb strings.Builder
	r.render(r.xmlDoc(&g), &sb)
	ms, err := mxj.NewMapXmlSeq([]byte(sb.String()))
	var sm map[string]interface{} = map[string]interface{}{"a": map[string]interface{}{"#text": "x<y", "#seq": 0}}
	if err == nil {
		sm = seqHostile(r, map[string]interface{}(ms)).(map[string]interface{})
	}
	if mode != 1 && r.P(15) {
		// a MapSeq whose single root key holds a one-member list of a bare string
		sm = map[string]interface{}{r.Pick(xmlValueNames): []interface{}{strings.TrimSpace(r.hostile(4))}}
	}
	return fmt.Sprintf("implonly enc4 %d %d %s %s", mode, b2i(r.P(60)), enc(m), enc(sm))
}

// seqHostile replaces "#text" strings of a MapSeq.
func seqHostile(r *Rng, v interface{}) interface{} {
	switch x := v.(type) {
	case map[string]interface{}:
		o := map[string]interface{}{}
		for k, e := range x {
			if s, ok := e.(string); ok && k == "#text" && s != "" && r.P(60) {
				h := strings.TrimSpace(r.hostile(4))
				if h == "" {
					h = "&"
				}
				o[k] = h
			} else {
				o[k] = seqHostile(r, e)
			}
		}
		return o
	case []interface{}:
		o := make([]interface{}, len(x))
		for i, e := range x {
			o[i] = seqHostile(r, e)
		}
		return o
	}
	return v
}
