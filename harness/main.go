package main

// mxjverif - correspondence / oracle harness for the Lean model of clbanning/mxj.
//
//   mxjverif -prop C07 -tier quick -seed 1 -driver <mxjdriver> -verif /verif -out result.json
//   mxjverif -prop C07 -replay file.case -driver <mxjdriver>

import (
	"bufio"
	"encoding/json"
	"flag"
	"fmt"
	"os"
	"strings"
)

func main() {
	prop := flag.String("prop", "", "property id")
	tier := flag.String("tier", "quick", "quick|thorough")
	seed := flag.Int64("seed", 1, "PRNG seed")
	driver := flag.String("driver", "", "path of the Lean model driver")
	verif := flag.String("verif", "/verif", "verif directory (corpus, known findings, replays)")
	out := flag.String("out", "", "result JSON file")
	replay := flag.String("replay", "", "replay one stored case file")
	mult := flag.Int("mult", 1, "multiply the number of generated cases (search phase)")
	nOverride := flag.Int("n", 0, "override the number of generated cases")
	execOps := flag.String("execops", "", "child mode: run the ops of this file, print one observation per line")
	flag.Parse()

	initOptions()
	resetOptions()
	if err := checkDefaults(); err != nil {
		fmt.Fprintln(os.Stderr, "harness: ", err)
		os.Exit(3)
	}
	p, ok := props[*prop]
	if !ok {
		fmt.Fprintf(os.Stderr, "harness: unknown property %q\n", *prop)
		os.Exit(3)
	}
	if *execOps != "" {
		w := bufio.NewWriter(os.Stdout)
		for _, op := range readOps(*execOps) {
			fmt.Fprintln(w, "="+strings.ReplaceAll(safeExec(p, op), "\n", " "))
			w.Flush()
		}
		return
	}
	if *replay != "" {
		ops := readOps(*replay)
		model, err := runDriver(*driver, ops)
		if err != nil {
			fmt.Fprintln(os.Stderr, err)
			os.Exit(3)
		}
		bad := false
		for i, op := range ops {
			impl := safeExec(p, op)
			v := judgeOp(p, op, impl, model[i])
			fmt.Printf("case:   %s\nimpl:   %s\nmodel:  %s\ncorrespondence: %v\noracle: %s\n", p.Describe(op), impl, model[i], v.CorrOK, orOK(v.OracleFail))
			if v.OracleFail != "" {
				bad = true
			}
		}
		if bad {
			os.Exit(1)
		}
		return
	}
	caseOverride = *nOverride
	defer func() {
		if scratchDir != "" {
			os.RemoveAll(scratchDir)
		}
	}()
	res, err := runProp(p, *tier, *seed, *driver, *verif, *mult)
	if err != nil {
		fmt.Fprintln(os.Stderr, "harness:", err)
		os.Exit(3)
	}
	b, _ := json.MarshalIndent(res, "", " ")
	if *out != "" {
		os.WriteFile(*out, b, 0o644)
	} else {
		os.Stdout.Write(b)
	}
}

func orOK(s string) string {
	if s == "" {
		return "holds"
	}
	return "FAILS: " + s
}
