package main

import "encoding/json"

// jsonOf renders a value for humans (samples and replays only; never compared).
func jsonOf(v interface{}) string {
	b, err := json.Marshal(v)
	if err != nil {
		return enc(v)
	}
	return string(b)
}
