package main

// c20.go - the legacy packages j2x, x2j and x2j-wrapper versus the documented compositions of
// core functions, function by function on the same input (implementation differential);
// the wrapper's own walkers are also modelled in Lean (Mxj.Model.Wrapper).

import (
	"regexp"
	"path/filepath"
	"os"
	"encoding/json"
	"bytes"
	"fmt"
	"sort"
	"strings"

	mxj "github.com/clbanning/mxj/v2"
	"github.com/clbanning/mxj/v2/j2x"
	"github.com/clbanning/mxj/v2/x2j"
	x2jw "github.com/clbanning/mxj/v2/x2j-wrapper"
)

func sortedStrs(ss []string) string {
	c := append([]string{}, ss...)
	sort.Strings(c)
	return strings.Join(c, "\x1e")
}

func errEq(a, b error) bool { return (a == nil) == (b == nil) }

func leafDigest(ls []mxj.LeafNode) string {
	var s []string
	for _, l := range ls {
		s = append(s, l.Path+"="+enc(l.Value))
	}
	return sortedStrs(s)
}

// legacy battery: returns the names of the functions that disagree with their composition.
// c20WrapExec runs one of x2j-wrapper's own walkers on a JSON-shaped Map (ops wfrom / wat / wpfk: compared
// with Model/Wrapper by the driver) and evaluates the documented core composition beside it.
func c20WrapExec(c *cur, name string) string {
	m := c.mapVal()
	arg := c.str()
	attrs := false
	if name != "wpfk" {
		attrs = c.boolean()
	}
	if c.err != nil {
		return "bad-op " + c.err.Error()
	}
	mval := func(v []interface{}) string { return sortedList(encList(v)) }
	mv := mxj.Map(m)
	switch name {
	case "wpfk":
		ps := append([]string{}, x2jw.PathsForKey(m, arg)...)
		sort.Strings(ps)
		core := append([]string{}, mv.PathsForKey(arg)...)
		sort.Strings(core)
		note := ""
		if strings.Join(ps, "\x00") != strings.Join(core, "\x00") {
			note = fmt.Sprintf(" | WRAPCORE x2j-wrapper.PathsForKey returns %q, Map.PathsForKey %q", ps, core)
		}
		if a, b := x2jw.PathForKeyShortest(m, arg), mv.PathForKeyShortest(arg); segCount(a) != segCount(b) || (a == "") != (b == "") {
			note += fmt.Sprintf(" | WRAPCORE x2j-wrapper.PathForKeyShortest returns %q, Map.PathForKeyShortest %q", a, b)
		}
		return "ok " + encStrList(ps) + note
	case "wfrom":
		vs := x2jw.ValuesFromKeyPath(m, arg, attrs)
		note := ""
		if !strings.HasSuffix(arg, ".") && !strings.Contains(arg, "[") {
			var want []interface{}
			if attrs {
				want, _ = mv.ValuesForPath(arg)
			} else {
				want = valuesNoAttrs(m, strings.Split(arg, "."))
			}
			if mval(vs) != mval(want) {
				note = fmt.Sprintf(" | WRAPCORE x2j-wrapper.ValuesFromKeyPath(attrs=%v) returns %s, the core composition %s", attrs, clip(mval(vs), 300), clip(mval(want), 300))
			}
		}
		if len(vs) == 0 {
			vs = []interface{}{}
		}
		return "ok " + encList(vs) + note
	default: // wat
		vs := x2jw.ValuesAtKeyPath(m, arg, attrs)
		note := ""
		if !strings.HasSuffix(arg, ".") && !strings.Contains(arg, "[") {
			segs := strings.Split(arg, ".")
			var parent []interface{}
			if len(segs) > 1 {
				pp := strings.Join(segs[:len(segs)-1], ".")
				if attrs {
					parent, _ = mv.ValuesForPath(pp)
				} else {
					parent = valuesNoAttrs(m, segs[:len(segs)-1])
				}
			} else {
				parent = []interface{}{m}
			}
			last := segs[len(segs)-1]
			hit := last == "*" && len(parent) > 0
			for _, p := range parent {
				if pm, ok := p.(map[string]interface{}); ok {
					if _, ok := pm[last]; ok {
						hit = true
					}
				}
			}
			if !hit {
				parent = nil
			}
			if mval(vs) != mval(parent) {
				note = fmt.Sprintf(" | WRAPCORE x2j-wrapper.ValuesAtKeyPath(attrs=%v) returns %s, the parent values (when one of them holds the last key) are %s", attrs, clip(mval(vs), 300), clip(mval(parent), 300))
			}
		}
		if len(vs) == 0 {
			vs = []interface{}{}
		}
		return "ok " + encList(vs) + note
	}
}

func c20Exec(op string) string {
	c, name := newCur(op)
	if name == "wfrom" || name == "wat" || name == "wpfk" {
		return c20WrapExec(c, name)
	}
	if isValueOp(name) {
		return c20ValueExec(c, name)
	}
	c.pos++ // "legacy"
	doc := []byte(c.str())
	jtxt := []byte(c.str())
	key := c.str()
	path := c.str()
	subs := c.strList()
	pairs := c.strList()
	newVal := c.val()
	safe := c.boolean()
	cast := c.boolean()
	if c.err != nil {
		return "bad-op " + c.err.Error()
	}
	mxj.XMLEscapeChars(true)
	var bad []string
	chk := func(name string, ok bool) {
		if !ok {
			bad = append(bad, name)
		}
	}
	mval := func(v interface{}) string { return sortedList(enc(v)) }

	// ---- j2x
	mj, ejm := mxj.NewMapJson(jtxt)
	{
		m, err := j2x.JsonToMap(jtxt)
		chk("j2x.JsonToMap", errEq(err, ejm) && (err != nil || enc(m) == enc(map[string]interface{}(mj))))
	}
	if ejm == nil {
		a, ea := j2x.MapToJson(mj, safe)
		b, eb := mj.Json(safe)
		chk("j2x.MapToJson", errEq(ea, eb) && bytes.Equal(a, b))
		a, ea = j2x.JsonToXml(jtxt)
		b, eb = mj.Xml()
		chk("j2x.JsonToXml", errEq(ea, eb) && bytes.Equal(a, b))
		var w bytes.Buffer
		ew := j2x.JsonToXmlWriter(jtxt, &w)
		chk("j2x.JsonToXmlWriter", errEq(ew, eb) && (eb != nil || bytes.Equal(w.Bytes(), b)))
		raw, x, er := j2x.JsonReaderToXml(bytes.NewReader(jtxt))
		mr, rr, err2 := mxj.NewMapJsonReaderRaw(bytes.NewReader(jtxt))
		if err2 == nil {
			xr, exr := mr.Xml()
			chk("j2x.JsonReaderToXml", errEq(er, exr) && bytes.Equal(raw, rr) && (exr != nil || bytes.Equal(x, xr)))
		}
		ps, _ := j2x.JsonPathsForKey(jtxt, key)
		chk("j2x.JsonPathsForKey", sortedStrs(ps) == sortedStrs(mj.PathsForKey(key)))
		p1, _ := j2x.JsonPathForKeyShortest(jtxt, key)
		chk("j2x.JsonPathForKeyShortest", segCount(p1) == segCount(mj.PathForKeyShortest(key)) && (p1 == "") == (mj.PathForKeyShortest(key) == ""))
		v1, e1 := j2x.JsonValuesForKey(jtxt, key, subs...)
		v2, e2 := mj.ValuesForKey(key, subs...)
		chk("j2x.JsonValuesForKey", errEq(e1, e2) && mval(v1) == mval(v2))
		v1, e1 = j2x.JsonValuesForKeyPath(jtxt, path, subs...)
		v2, e2 = mj.ValuesForPath(path, subs...)
		chk("j2x.JsonValuesForKeyPath", errEq(e1, e2) && mval(v1) == mval(v2))
		u1, eu1 := j2x.JsonUpdateValsForPath(jtxt, deepCopy(newVal), path, subs...)
		mc, _ := mxj.NewMapJson(jtxt)
		_, eu2 := mc.UpdateValuesForPath(deepCopy(newVal), path, subs...)
		var u2 []byte
		if eu2 == nil {
			u2, eu2 = mc.Json()
		}
		chk("j2x.JsonUpdateValsForPath", errEq(eu1, eu2) && (eu2 != nil || bytes.Equal(u1, u2)))
		n1, en1 := j2x.JsonNewJson(jtxt, pairs...)
		nm, en2 := mj.NewMap(pairs...)
		if en2 == nil && !anyWild(pairs) {
			n2, _ := nm.Json()
			chk("j2x.JsonNewJson", errEq(en1, en2) && bytes.Equal(n1, n2))
			nx1, enx1 := j2x.JsonNewXml(jtxt, pairs...)
			nx2, enx2 := nm.Xml()
			chk("j2x.JsonNewXml", errEq(enx1, enx2) && (enx2 != nil || bytes.Equal(nx1, nx2)))
		} else if en2 != nil {
			chk("j2x.JsonNewJson", en1 != nil)
			_, enx1 := j2x.JsonNewXml(jtxt, pairs...)
			chk("j2x.JsonNewXml", enx1 != nil)
		}
		l1, _ := j2x.JsonLeafNodes(jtxt)
		chk("j2x.JsonLeafNodes", leafDigest(l1) == leafDigest(mj.LeafNodes()))
		lv, _ := j2x.JsonLeafValues(jtxt)
		chk("j2x.JsonLeafValues", mval(lv) == mval(mj.LeafValues()))
		lp, _ := j2x.JsonLeafPath(jtxt)
		chk("j2x.JsonLeafPath", sortedStrs(lp) == sortedStrs(mj.LeafPaths()))
		{
			// where the walk order is fixed (one key per object, a long list) the wrappers return the
			// paths and values in the order of the Map methods: list order, entry by entry
			long := []byte(`{"a":{"l":[0,1,2,3,4,5,6,7,8,9,10,11,12,{"b":[20,21]}]}}`)
			ml, _ := mxj.NewMapJson(long)
			p1, _ := j2x.JsonLeafPath(long)
			v1, _ := j2x.JsonLeafValues(long)
			chk("j2x.JsonLeafPath(order)", strings.Join(p1, ",") == strings.Join(ml.LeafPaths(), ","))
			chk("j2x.JsonLeafValues(order)", enc(v1) == enc(ml.LeafValues()))
			lx := []byte("<a><l>0</l><l>1</l><l>2</l><l>3</l><l>4</l><l>5</l><l>6</l><l>7</l><l>8</l><l>9</l><l>10</l><l>11</l></a>")
			mlx, _ := mxj.NewMapXml(lx)
			p2, _ := x2j.XmlLeafPath(lx)
			v2, _ := x2j.XmlLeafValues(lx)
			chk("x2j.XmlLeafPath(order)", strings.Join(p2, ",") == strings.Join(mlx.LeafPaths(), ","))
			chk("x2j.XmlLeafValues(order)", enc(v2) == enc(mlx.LeafValues()))
		}
	}

	// ---- x2j
	mx, exm := mxj.NewMapXml(doc)
	{
		m, err := x2j.XmlToMap(doc)
		chk("x2j.XmlToMap", errEq(err, exm) && (err != nil || enc(m) == enc(map[string]interface{}(mx))))
	}
	if exm == nil {
		a, ea := x2j.MapToXml(mx)
		b, eb := mx.Xml()
		chk("x2j.MapToXml", errEq(ea, eb) && bytes.Equal(a, b))
		a, ea = x2j.XmlToJson(doc, safe)
		b, eb = mx.Json(safe)
		chk("x2j.XmlToJson", errEq(ea, eb) && bytes.Equal(a, b))
		var w bytes.Buffer
		a, ea = x2j.XmlToJsonWriter(doc, &w, safe)
		chk("x2j.XmlToJsonWriter", errEq(ea, eb) && bytes.Equal(a, b) && bytes.Equal(w.Bytes(), b))
		raw, jj, er := x2j.XmlReaderToJson(bytes.NewReader(doc), safe)
		mr, rr, err2 := mxj.NewMapXmlReaderRaw(bytes.NewReader(doc))
		if err2 == nil {
			jr, ejr := mr.Json(safe)
			chk("x2j.XmlReaderToJson", errEq(er, ejr) && bytes.Equal(raw, rr) && bytes.Equal(jj, jr))
		}
		ps, _ := x2j.XmlPathsForTag(doc, key)
		chk("x2j.XmlPathsForTag", sortedStrs(ps) == sortedStrs(mx.PathsForKey(key)))
		p1, _ := x2j.XmlPathForTagShortest(doc, key)
		chk("x2j.XmlPathForTagShortest", segCount(p1) == segCount(mx.PathForKeyShortest(key)) && (p1 == "") == (mx.PathForKeyShortest(key) == ""))
		v1, e1 := x2j.XmlValuesForTag(doc, key, subs...)
		v2, e2 := mx.ValuesForKey(key, subs...)
		chk("x2j.XmlValuesForTag", errEq(e1, e2) && mval(v1) == mval(v2))
		v1, e1 = x2j.XmlValuesForPath(doc, path, subs...)
		v2, e2 = mx.ValuesForPath(path, subs...)
		chk("x2j.XmlValuesForPath", errEq(e1, e2) && mval(v1) == mval(v2))
		u1, eu1 := x2j.XmlUpdateValsForPath(doc, deepCopy(newVal), path, subs...)
		mc, _ := mxj.NewMapXml(doc)
		_, eu2 := mc.UpdateValuesForPath(deepCopy(newVal), path, subs...)
		var u2 []byte
		if eu2 == nil {
			u2, eu2 = mc.Xml()
		}
		chk("x2j.XmlUpdateValsForPath", errEq(eu1, eu2) && (eu2 != nil || bytes.Equal(u1, u2)))
		nm, en2 := mx.NewMap(pairs...)
		if en2 == nil && !anyWild(pairs) {
			n1, en1 := x2j.XmlNewXml(doc, pairs...)
			n2, enx := nm.Xml()
			chk("x2j.XmlNewXml", errEq(en1, enx) && (enx != nil || bytes.Equal(n1, n2)))
			j1, ej1 := x2j.XmlNewJson(doc, pairs...)
			j2, ej2 := nm.Json()
			chk("x2j.XmlNewJson", errEq(ej1, ej2) && bytes.Equal(j1, j2))
		} else if en2 != nil {
			_, en1 := x2j.XmlNewXml(doc, pairs...)
			chk("x2j.XmlNewXml", en1 != nil)
			_, ej1 := x2j.XmlNewJson(doc, pairs...)
			chk("x2j.XmlNewJson", ej1 != nil)
		}
		l1, _ := x2j.XmlLeafNodes(doc)
		chk("x2j.XmlLeafNodes", leafDigest(l1) == leafDigest(mx.LeafNodes()))
		lv, _ := x2j.XmlLeafValues(doc)
		chk("x2j.XmlLeafValues", mval(lv) == mval(mx.LeafValues()))
		lp, _ := x2j.XmlLeafPath(doc)
		chk("x2j.XmlLeafPath", sortedStrs(lp) == sortedStrs(mx.LeafPaths()))
	}

	// ---- x2j-wrapper
	mc, ecm := mxj.NewMapXml(doc, cast)
	{
		m, err := x2jw.DocToMap(string(doc), cast)
		chk("x2jw.DocToMap", errEq(err, ecm) && (err != nil || enc(m) == enc(map[string]interface{}(mc))))
		m, err = x2jw.ByteDocToMap(doc, cast)
		chk("x2jw.ByteDocToMap", errEq(err, ecm) && (err != nil || enc(m) == enc(map[string]interface{}(mc))))
		m, err = x2jw.ToMap(bytes.NewReader(doc), cast)
		chk("x2jw.ToMap", errEq(err, ecm) && (err != nil || enc(m) == enc(map[string]interface{}(mc))))
		mm := map[string]interface{}{}
		err = x2jw.Unmarshal(doc, &mm)
		chk("x2jw.Unmarshal", errEq(err, exm) && (err != nil || enc(mm) == enc(map[string]interface{}(mx))))
	}
	if ecm == nil {
		jb, ej := mc.Json()
		s1, e1 := x2jw.DocToJson(string(doc), cast)
		chk("x2jw.DocToJson", errEq(e1, ej) && s1 == string(jb))
		s1, e1 = x2jw.ByteDocToJson(doc, cast)
		chk("x2jw.ByteDocToJson", errEq(e1, ej) && s1 == string(jb))
		ji, eji := mc.JsonIndent("", "  ")
		s1, e1 = x2jw.DocToJsonIndent(string(doc), cast)
		chk("x2jw.DocToJsonIndent", errEq(e1, eji) && s1 == string(ji))
		// ToJson uses json.Marshal (safe encoding)
		js, ejs := mc.Json(true)
		s1, e1 = x2jw.ToJson(bytes.NewReader(doc), cast)
		chk("x2jw.ToJson", errEq(e1, ejs) && s1 == string(js))
	}
	if exm == nil {
		m := map[string]interface{}(mx)
		chk("x2jw.PathsForKey", sortedStrs(x2jw.PathsForKey(m, key)) == sortedStrs(mx.PathsForKey(key)))
		{
			// the same on a Map that references some of its sub-documents from several places
			sm := shareSome(m)
			chk("x2jw.PathsForKey(shared sub-maps)", sortedStrs(x2jw.PathsForKey(sm, key)) == sortedStrs(mxj.Map(sm).PathsForKey(key)))
			chk("x2jw.PathForKeyShortest(shared sub-maps)", segCount(x2jw.PathForKeyShortest(sm, key)) == segCount(mxj.Map(sm).PathForKeyShortest(key)))
			if !strings.HasSuffix(path, ".") && !strings.Contains(path, "[") {
				v2, _ := mxj.Map(sm).ValuesForPath(path)
				chk("x2jw.ValuesFromKeyPath(shared sub-maps)", mval(x2jw.ValuesFromKeyPath(sm, path, true)) == mval(v2))
			}
		}
		ps, _ := x2jw.PathsForTag(string(doc), key)
		chk("x2jw.PathsForTag", sortedStrs(ps) == sortedStrs(mx.PathsForKey(key)))
		ps, _ = x2jw.BytePathsForTag(doc, key)
		chk("x2jw.BytePathsForTag", sortedStrs(ps) == sortedStrs(mx.PathsForKey(key)))
		sp := x2jw.PathForKeyShortest(m, key)
		chk("x2jw.PathForKeyShortest", segCount(sp) == segCount(mx.PathForKeyShortest(key)) && (sp == "") == (mx.PathForKeyShortest(key) == ""))
		sp2, _ := x2jw.PathForTagShortest(string(doc), key)
		sp3, _ := x2jw.BytePathForTagShortest(doc, key)
		chk("x2jw.PathForTagShortest", segCount(sp2) == segCount(sp) && segCount(sp3) == segCount(sp))
		if !strings.HasSuffix(path, ".") && !strings.Contains(path, "[") {
			// with attributes requested: exactly Map.ValuesForPath
			v1 := x2jw.ValuesFromKeyPath(m, path, true)
			v2, _ := mx.ValuesForPath(path)
			chk("x2jw.ValuesFromKeyPath(attrs)", mval(v1) == mval(v2))
			vt, _ := x2jw.ValuesFromTagPath(string(doc), path, true)
			chk("x2jw.ValuesFromTagPath(attrs)", mval(vt) == mval(v2))
			{
				// the same document asked again after the first answer was written over and a decoder
				// option changed: every call decodes the document as it is now asked
				want1 := mval(v2)
				scribble(interface{}(vt))
				va0, _ := x2jw.ValuesAtTagPath(string(doc), path, true)
				scribble(interface{}(va0))
				vt2, _ := x2jw.ValuesFromTagPath(string(doc), path, true)
				chk("x2jw.ValuesFromTagPath(asked twice)", mval(vt2) == want1)
				mxj.CoerceKeysToLower(true)
				mxj.SetAttrPrefix("@")
				ml, el := mxj.NewMapXml(doc)
				if el == nil {
					lp := strings.ToLower(strings.ReplaceAll(path, "-", "@"))
					w3, _ := ml.ValuesForPath(lp)
					vt3, _ := x2jw.ValuesFromTagPath(string(doc), lp, true)
					chk("x2jw.ValuesFromTagPath(asked again under other decoder options)", mval(vt3) == mval(w3))
					wa3 := x2jw.ValuesAtKeyPath(map[string]interface{}(ml), lp, true)
					va3, _ := x2jw.ValuesAtTagPath(string(doc), lp, true)
					chk("x2jw.ValuesAtTagPath(asked again under other decoder options)", mval(va3) == mval(wa3))
				}
				mxj.CoerceKeysToLower(false)
				mxj.SetAttrPrefix("-")
			}
			vr, _ := x2jw.ReaderValuesFromTagPath(bytes.NewReader(doc), path, true)
			chk("x2jw.ReaderValuesFromTagPath(attrs)", mval(vr) == mval(v2))
			// without: attribute entries excluded at wildcard steps
			v1 = x2jw.ValuesFromKeyPath(m, path)
			chk("x2jw.ValuesFromKeyPath", mval(v1) == mval(valuesNoAttrs(m, strings.Split(path, "."))))
			// ValuesAtKeyPath: the parent values, when one of them holds the last key
			segs := strings.Split(path, ".")
			va := x2jw.ValuesAtKeyPath(m, path, true)
			var parent []interface{}
			if len(segs) > 1 {
				parent, _ = mx.ValuesForPath(strings.Join(segs[:len(segs)-1], "."))
			} else {
				parent = []interface{}{m}
			}
			last := segs[len(segs)-1]
			hit := last == "*" && len(parent) > 0
			for _, p := range parent {
				if pm, ok := p.(map[string]interface{}); ok {
					if _, ok := pm[last]; ok {
						hit = true
					}
				}
			}
			if !hit {
				parent = nil
			}
			chk("x2jw.ValuesAtKeyPath", mval(va) == mval(parent))
		}
	}
	// ---- entry points that are plain compositions (one call each, compared with the composition)
	{
		var w bytes.Buffer
		e1 := j2x.JsonReaderToXmlWriter(bytes.NewReader(jtxt), &w)
		mj2, ej := mxj.NewMapJsonReader(bytes.NewReader(jtxt))
		var want []byte
		var ew error = ej
		if ej == nil {
			want, ew = mj2.Xml()
		}
		chk("j2x.JsonReaderToXmlWriter", errEq(e1, ew) && (ew != nil || bytes.Equal(w.Bytes(), want)))
		w.Reset()
		xr, jr, e2 := x2j.XmlReaderToJsonWriter(bytes.NewReader(doc), &w, safe)
		mx2, xraw2, ex := mxj.NewMapXmlReaderRaw(bytes.NewReader(doc))
		if ex == nil {
			jw, ejw := mx2.Json(safe)
			chk("x2j.XmlReaderToJsonWriter", errEq(e2, ejw) && (ejw != nil || (bytes.Equal(jr, jw) && bytes.Equal(w.Bytes(), jw) && bytes.Equal(xr, xraw2))))
		} else {
			chk("x2j.XmlReaderToJsonWriter", e2 != nil)
		}
		mc2, ec := mxj.NewMapXmlReader(bytes.NewReader(doc), cast)
		ti, eti := x2jw.ToJsonIndent(bytes.NewReader(doc), cast)
		if ec == nil {
			ref, _ := json.MarshalIndent(map[string]interface{}(mc2), "", "  ")
			chk("x2jw.ToJsonIndent", eti == nil && ti == string(ref))
		} else {
			chk("x2jw.ToJsonIndent", eti != nil)
		}
		bm, ebm := x2jw.XmlBufferToMap(bytes.NewBuffer(append([]byte{}, doc...)), cast)
		chk("x2jw.XmlBufferToMap", errEq(ebm, ec) && (ec != nil || enc(bm) == enc(map[string]interface{}(mc2))))
		bj, ebj := x2jw.XmlBufferToJson(bytes.NewBuffer(append([]byte{}, doc...)), cast)
		if ec == nil {
			ref, eref := mc2.Json()
			chk("x2jw.XmlBufferToJson", errEq(ebj, eref) && (eref != nil || bj == string(ref)))
		}
		// the message loops: two copies of the document, one handler call each, in order
		two := append(append(append([]byte{}, doc...), '\n'), doc...)
		var seen []string
		eh := func(error) bool { return false }
		em := x2jw.XmlMsgsFromReader(bytes.NewReader(two), func(m map[string]interface{}) bool { seen = append(seen, enc(m)); return true }, eh, cast)
		if ec == nil {
			one := enc(map[string]interface{}(mc2))
			chk("x2jw.XmlMsgsFromReader", em == nil && len(seen) == 2 && seen[0] == one && seen[1] == one)
			// stop after the first message, then go on reading the SAME reader (no ReadByte method):
			// nothing beyond the first message may have been consumed
			cr := &chunkReader{data: append([]byte{}, two...), sizes: []int{64, 3, 1000}}
			var first, rest []string
			x2jw.XmlMsgsFromReader(cr, func(m map[string]interface{}) bool { first = append(first, enc(m)); return false }, eh, cast)
			x2jw.XmlMsgsFromReader(cr, func(m map[string]interface{}) bool { rest = append(rest, enc(m)); return true }, eh, cast)
			chk("x2jw.XmlMsgsFromReader(stop, continue)", len(first) == 1 && first[0] == one && len(rest) == 1 && rest[0] == one)
			{
				// a malformed message between two copies: the error handler is asked once; its false
				// ends the loop with the error after the first message, its true lets the loop go on
				bad3 := append(append(append(append([]byte{}, doc...), []byte("<zbad>x</zworse>\n")...), doc...), '\n')
				for _, cont := range []bool{false, true} {
					var got []string
					nerr := 0
					e3 := x2jw.XmlMsgsFromReader(bytes.NewReader(bad3), func(m map[string]interface{}) bool { got = append(got, enc(m)); return true }, func(error) bool { nerr++; return cont }, cast)
					okc := nerr == 1 && len(got) >= 1 && got[0] == one
					if cont {
						okc = okc && e3 == nil && len(got) == 2 && got[1] == one
					} else {
						okc = okc && e3 != nil && len(got) == 1
					}
					chk(fmt.Sprintf("x2jw.XmlMsgsFromReader(malformed message, error handler answers %v)", cont), okc)
				}
			}
			var seenJ []string
			emj := x2jw.XmlMsgsFromReaderAsJson(bytes.NewReader(two), func(s string) bool { seenJ = append(seenJ, s); return len(seenJ) < 1 }, eh, cast)
			ref, _ := json.Marshal(map[string]interface{}(mc2))
			chk("x2jw.XmlMsgsFromReaderAsJson", emj == nil && len(seenJ) == 1 && seenJ[0] == string(ref))
			// the file forms first delete the white space in front of every '<' (a documented
			// work-around of the legacy package), then run the same loop over the buffer
			f := filepath.Join(scratch(), "c20msgs")
			squeezed := regexp.MustCompile("[ \t\n\r]*<").ReplaceAll(doc, []byte("<"))
			if ms, es := mxj.NewMapXmlReader(bytes.NewReader(squeezed), cast); es == nil && os.WriteFile(f, two, 0o644) == nil {
				oneS := enc(map[string]interface{}(ms))
				seen = nil
				emf := x2jw.XmlMsgsFromFile(f, func(m map[string]interface{}) bool { seen = append(seen, enc(m)); return true }, eh, cast)
				chk("x2jw.XmlMsgsFromFile", emf == nil && len(seen) == 2 && seen[0] == oneS && seen[1] == oneS)
				if refS, eS := ms.Json(); eS == nil {
					seenJ = nil
					emfj := x2jw.XmlMsgsFromFileAsJson(f, func(s string) bool { seenJ = append(seenJ, s); return true }, eh, cast)
					chk("x2jw.XmlMsgsFromFileAsJson", emfj == nil && len(seenJ) == 2 && seenJ[0] == string(refS) && seenJ[1] == string(refS))
				}
				os.Remove(f)
			}
		}
	}
	if exm == nil {
		m := map[string]interface{}(mx)
		vt, evt := x2jw.ValuesForTag(string(doc), key)
		chk("x2jw.ValuesForTag", evt == nil && mval(vt) == mval(x2jw.ValuesForKey(m, key)))
		vrt, evrt := x2jw.ReaderValuesForTag(bytes.NewReader(doc), key)
		chk("x2jw.ReaderValuesForTag", evrt == nil && mval(vrt) == mval(x2jw.ValuesForKey(m, key)))
		if !strings.HasSuffix(path, ".") && !strings.Contains(path, "[") {
			va1, _ := x2jw.ValuesAtTagPath(string(doc), path, true)
			chk("x2jw.ValuesAtTagPath", mval(va1) == mval(x2jw.ValuesAtKeyPath(m, path, true)))
		}
		// DocValue / MapValue without attributes: the value found by walking nested maps
		segs := strings.Split(path, ".")
		if holder, ok := mapDescent(m, segs); ok && segsSafe(segs) {
			want, present := holder[segs[len(segs)-1]]
			dv, edv := x2jw.DocValue(string(doc), path)
			chk("x2jw.DocValue", (edv == nil) == present && (!present || enc(dv) == enc(want)))
			mv2, emv := x2jw.MapValue(m, path, nil)
			chk("x2jw.MapValue", (emv == nil) == present && (!present || enc(mv2) == enc(want)))
		}
		am, eam := x2jw.NewAttributeMap("id:1", "lang:en")
		chk("x2jw.NewAttributeMap", eam == nil && enc(am) == enc(map[string]interface{}{"-id": "1", "-lang": "en"}))
		_, eam2 := x2jw.NewAttributeMap("id")
		chk("x2jw.NewAttributeMap(bad)", eam2 != nil)
	}
	sort.Strings(bad)
	// a document the decoder rejects is rejected by every wrapper that has to decode it (an error,
	// never a value computed from part of it)
	if bx := doc[:len(doc)/2]; len(bx) > 0 {
		if _, e := mxj.NewMapXml(bx); e != nil {
			_, e1 := x2j.XmlToMap(bx)
			_, e2 := x2j.XmlToJson(bx)
			_, e3 := x2j.XmlPathsForTag(bx, key)
			_, e4 := x2j.XmlValuesForTag(bx, key)
			_, e5 := x2j.XmlValuesForPath(bx, path)
			_, e6 := x2j.XmlLeafNodes(bx)
			_, e7 := x2j.XmlUpdateValsForPath(bx, deepCopy(newVal), path)
			_, e8 := x2j.XmlNewXml(bx, "a:b")
			_, e9 := x2jw.DocToMap(string(bx))
			_, e10 := x2jw.DocToJson(string(bx))
			_, e11 := x2jw.PathsForTag(string(bx), key)
			_, e12 := x2jw.ValuesFromTagPath(string(bx), path)
			_, e13 := x2jw.ValuesAtTagPath(string(bx), path)
			_, e14 := x2jw.ValuesForTag(string(bx), key)
			for i, e := range []error{e1, e2, e3, e4, e5, e6, e7, e8, e9, e10, e11, e12, e13, e14} {
				chk(fmt.Sprintf("wrapper %d of the XML error battery accepts a document NewMapXml rejects", i+1), e != nil)
			}
		}
	}
	if bj := jtxt[:len(jtxt)/2]; len(bj) > 0 {
		if _, e := mxj.NewMapJson(bj); e != nil {
			_, e1 := j2x.JsonToMap(bj)
			_, e2 := j2x.JsonToXml(bj)
			_, e3 := j2x.JsonPathsForKey(bj, key)
			_, e4 := j2x.JsonValuesForKey(bj, key)
			_, e5 := j2x.JsonValuesForKeyPath(bj, path)
			_, e6 := j2x.JsonLeafNodes(bj)
			_, e7 := j2x.JsonUpdateValsForPath(bj, deepCopy(newVal), path)
			_, e8 := j2x.JsonNewJson(bj, "a:b")
			for i, e := range []error{e1, e2, e3, e4, e5, e6, e7, e8} {
				chk(fmt.Sprintf("wrapper %d of the JSON error battery accepts a text NewMapJson rejects", i+1), e != nil)
			}
		}
	}
	return "ok | " + strings.Join(bad, ",")
}

func anyWild(pairs []string) bool {
	for _, p := range pairs {
		if strings.Contains(p, "*") {
			return true
		}
	}
	return false
}

// valuesNoAttrs: Map.ValuesForPath with '-' entries skipped at wildcard steps (an independent
// little walker over the frontier, not the wrapper's code).
func valuesNoAttrs(m interface{}, keys []string) []interface{} {
	front := []interface{}{m}
	for _, k := range keys {
		var next []interface{}
		for _, v := range front {
			var maps []map[string]interface{}
			switch x := v.(type) {
			case map[string]interface{}:
				maps = append(maps, x)
			case []interface{}:
				for _, e := range x {
					if em, ok := e.(map[string]interface{}); ok {
						maps = append(maps, em)
					} else if k == "*" {
						next = append(next, e)
					}
				}
			}
			for _, mm := range maps {
				if k == "*" {
					for _, kk := range sortedKeys(mm) {
						if strings.HasPrefix(kk, "-") {
							continue
						}
						next = append(next, mm[kk])
					}
				} else if x, ok := mm[k]; ok {
					next = append(next, x)
				}
			}
		}
		front = next
	}
	var out []interface{}
	for _, v := range front {
		if l, ok := v.([]interface{}); ok {
			out = append(out, l...)
		} else {
			out = append(out, v)
		}
	}
	return out
}

func c20Describe(op string) string {
	c, name := newCur(op)
	if isValueOp(name) {
		return c20ValueDescribe(c, name)
	}
	if name == "wfrom" || name == "wat" || name == "wpfk" {
		m := c.mapVal()
		arg := c.str()
		fn := map[string]string{"wfrom": "ValuesFromKeyPath", "wat": "ValuesAtKeyPath", "wpfk": "PathsForKey/PathForKeyShortest"}[name]
		if name == "wpfk" {
			return fmt.Sprintf("x2j-wrapper.%s map=%s key=%q", fn, jsonOf(m), arg)
		}
		return fmt.Sprintf("x2j-wrapper.%s map=%s path=%q getAttrs=%v", fn, jsonOf(m), arg, c.boolean())
	}
	c.pos++
	doc := c.str()
	jtxt := c.str()
	key := c.str()
	path := c.str()
	subs := c.strList()
	pairs := c.strList()
	nv := c.val()
	return fmt.Sprintf("legacy battery xml=%q json=%q key=%q path=%q subkeys=%q keypairs=%q newVal=%s safe=%v cast=%v", doc, jtxt, key, path, subs, pairs, jsonOf(nv), c.boolean(), c.boolean())
}

func c20Judge(op, impl, model string) Verdict {
	if _, name := newCur(op); isValueOp(name) {
		return c20ValueJudge(op, impl, model)
	}
	if _, name := newCur(op); name == "wfrom" || name == "wat" || name == "wpfk" {
		v := Verdict{Tags: []string{name}}
		if strings.HasPrefix(impl, "panic") {
			v.OracleFail = "x2j-wrapper " + name + " panicked: " + impl
			v.Sig = name + ":panic"
			return v
		}
		ip := splitModel(impl)
		if len(ip) > 1 {
			v.OracleFail = strings.Join(ip[1:], "; ")
			v.Sig = name + ":core"
		}
		if name == "wpfk" {
			v.CorrOK = sortedList(strings.TrimPrefix(ip[0], "ok ")) == sortedList(strings.TrimPrefix(model, "ok "))
		} else {
			v.CorrOK = canonRes(ip[0], true) == canonRes(model, true)
		}
		v.Nontrivial = ip[0] != "ok [ ]"
		if v.Nontrivial {
			v.Tags = append(v.Tags, name+":match")
		} else {
			v.Tags = append(v.Tags, name+":nomatch")
		}
		return v
	}
	v := Verdict{Tags: []string{"legacy"}, CorrOK: true, Nontrivial: true}
	if strings.HasPrefix(impl, "panic") {
		v.OracleFail = "a legacy function panicked: " + impl
		v.Sig = "legacy:panic"
		return v
	}
	ip := splitModel(impl)
	if len(ip) > 1 && ip[1] != "" {
		v.OracleFail = "legacy functions disagree with the core composition: " + ip[1]
		v.Sig = "legacy:" + strings.Split(ip[1], ",")[0]
	}
	return v
}

func c20Gen(r *Rng, n int) []string {
	var ops []string
	for len(ops) < n {
		g := c01Gen0
		g.Comments, g.MultiTextP, g.MaxDepth = false, 0, 3
		g.Names = []string{"a", "b", "c", "k", "item"}
		var sb strings.Builder
		r.render(r.xmlDoc(&g), &sb)
		doc := sb.String()
		jm := r.jsonMap(0)
		jtxt := r.jsonText(jm)
		if r.P(10) {
			// a JSON document whose top-level value is an array (NewMapJson files it under "object")
			jtxt = "[" + jtxt + r.Pick([]string{"", ",1", "," + r.jsonText(r.jsonMap(1)), `,"s"`}) + "]"
			if r.P(20) {
				jtxt = r.Pick([]string{"[1,2,3]", "[]", `[[{"a":1}]]`})
			}
		}
		mx, err := mxj.NewMapXml([]byte(doc))
		if err != nil {
			continue
		}
		key := r.Pick([]string{"a", "b", "c", "k", "item", "-id", "#text", "zz"})
		path := r.DerivedPath(mx, false, 4)
		var subs []string
		if r.P(15) {
			subs = genSubkeys(r, mx, ":")
		}
		pairs := []string{r.DerivedPath(mx, false, 3) + ":" + r.Pick([]string{"x", "y.z", "p"})}
		if r.P(30) {
			pairs = append(pairs, r.DerivedPath(mx, false, 2)+":"+r.Pick([]string{"q", "r.s"}))
		}
		if r.P(15) {
			// a malformed pair: every wrapper must fail as Map.NewMap does
			pairs = append(pairs, r.Pick([]string{"a:", ":z", "a:b:c", "a:b.*", "a:b[0]", "a.*", "k[0]"}))
		}
		segs := strings.Split(strings.TrimSuffix(path, "."), ".")
		nv := map[string]interface{}{segs[len(segs)-1]: "NEW"}
		if r.P(40) {
			nv = map[string]interface{}{r.Pick([]string{"a", "b", "k"}): "NEW"}
		}
		if r.P(45) {
			// x2j-wrapper's own walkers on Maps of JSON shape (empty lists and maps, nulls, lists in lists,
			// attribute-like keys): compared with the wrapper model and with the core composition
			cfg := jsonShape
			cfg.Keys = []string{"a", "b", "c", "k", "item", "-x", "-id", "#text", "list", "d", "2"}
			if r.P(20) {
				cfg.ListInList = true
			}
			wm := r.RootMap(&cfg)
			ms := enc(wm)
			if !hasEmptyKey(wm) {
				ops = append(ops, c20ValueOps(r, wm, cfg.Keys)...)
			}
			for j := 0; j < 2; j++ {
				wp := r.DerivedPath(wm, false, 4)
				if strings.Contains(wp, "[") || hasEmptyKey(wm) {
					continue
				}
				ops = append(ops, fmt.Sprintf("wfrom %s %s %d", ms, encStr(wp), b2i(r.Bool())))
				ops = append(ops, fmt.Sprintf("wat %s %s %d", ms, encStr(wp), b2i(r.P(70))))
				if r.P(40) {
					ops = append(ops, fmt.Sprintf("wpfk %s %s", ms, encStr(r.Pick(cfg.Keys))))
				}
			}
		}
		ops = append(ops, fmt.Sprintf("implonly legacy %s %s %s %s %s %s %s %d %d", encStr(doc), encStr(jtxt), encStr(key), encStr(path), encStrList(subs), encStrList(pairs), enc(nv), b2i(r.Bool()), b2i(r.Bool())))
	}
	return ops
}

func init() {
	register(&Prop{
		ID:        "C20",
		Rule:      "one generated XML document and one generated JSON text per case, with a key, a derived path, sub-keys, key pairs and a new value; every exported function of j2x, x2j and x2j-wrapper that has a core counterpart is called beside the documented composition of core functions and the results compared (byte-for-byte for encoders, as multisets for value lists, as sets for paths); non-trivial = every case; distinct = distinct op lines",
		Gen:       c20Gen,
		Exec:      c20Exec,
		Judge:     c20Judge,
		Describe:  c20Describe,
		QuickN:    3000,
		ThoroughN: 90000,
	})
}

// hasEmptyKey: some map inside v has the key "" (x2j-wrapper's wildcard step slices k[:1]; Maps decoded
// from XML have no empty keys, and C20's domain are the C01/C03/C07 domains)
func hasEmptyKey(v interface{}) bool {
	switch t := v.(type) {
	case map[string]interface{}:
		for k, e := range t {
			if k == "" || hasEmptyKey(e) {
				return true
			}
		}
	case []interface{}:
		for _, e := range t {
			if hasEmptyKey(e) {
				return true
			}
		}
	}
	return false
}
