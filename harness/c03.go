package main

// c03.go - encoding any JSON-shaped Map or value as XML preserves all of its data:
// compact bytes versus Mxj.Model.Encode, and an independent image oracle in Go
// (what decoding the output must return).

import (
	"encoding/json"
	"bytes"
	"encoding/xml"
	"fmt"
	"strings"

	mxj "github.com/clbanning/mxj/v2"
)

const trimCut = "\t\r\b\n "

func scalarText(v interface{}) (string, bool) {
	switch x := v.(type) {
	case nil:
		return "", true
	case string:
		return x, true
	case float64, bool, int, int64, int32, uint64, float32, json.Number:
		return fmt.Sprintf("%v", x), true
	}
	return "", false
}

// imgPrefix: the attribute prefix the image oracle works with (set per case).
var imgPrefix = "-"

type kv struct {
	k string
	v interface{}
}

// imageChildren: what a value stored under key contributes to its parent, in document order.
func imageChildren(key string, v interface{}) []kv {
	switch x := v.(type) {
	case []interface{}:
		if len(x) == 0 {
			return []kv{{key, ""}}
		}
		var out []kv
		for _, e := range x {
			out = append(out, imageChildren(key, e)...)
		}
		return out
	case map[string]interface{}:
		return []kv{{key, imageMap(x)}}
	default:
		s, _ := scalarText(v)
		return []kv{{key, strings.Trim(s, trimCut)}}
	}
}

// imageMap: the decoded form of an element encoded from a map.
func imageMap(m map[string]interface{}) interface{} {
	out := map[string]interface{}{}
	text := ""
	hasText := false
	var kids []kv
	for _, k := range sortedKeys(m) {
		v := m[k]
		switch {
		case len(k) > len(imgPrefix) && strings.HasPrefix(k, imgPrefix):
			s, _ := scalarText(v)
			out[k] = s
		case k == "#text":
			s, _ := scalarText(v)
			text = strings.Trim(s, trimCut)
			hasText = text != ""
		default:
			kids = append(kids, imageChildren(k, v)...)
		}
	}
	for _, c := range kids {
		if old, ok := out[c.k]; ok {
			if l, isList := old.([]interface{}); isList {
				out[c.k] = append(l, c.v)
			} else {
				out[c.k] = []interface{}{old, c.v}
			}
		} else {
			out[c.k] = c.v
		}
	}
	if len(out) == 0 {
		if hasText {
			return text
		}
		return ""
	}
	if hasText {
		out["#text"] = text
	}
	return out
}

// imageDoc: the Map the output document must decode to.
func imageDoc(api int, v interface{}, rt, et string) map[string]interface{} {
	switch api {
	case 0: // Map.Xml(): single non-list key is the root, else <doc>
		m := v.(map[string]interface{})
		if len(m) == 1 {
			for k, x := range m {
				if _, isList := x.([]interface{}); isList {
					return nil // single key holding a list: outside the property's root clause
				}
				if (len(k) > len(imgPrefix) && strings.HasPrefix(k, imgPrefix)) || k == "#text" {
					return nil // the single root key must be an element name
				}
				cs := imageChildren(k, x)
				return map[string]interface{}{k: cs[0].v}
			}
		}
		return map[string]interface{}{"doc": imageMap(m)}
	case 1:
		return map[string]interface{}{rt: imageMap(v.(map[string]interface{}))}
	default: // AnyXml
		switch x := v.(type) {
		case map[string]interface{}:
			return map[string]interface{}{rt: imageMap(x)}
		case []interface{}:
			wrap := map[string]interface{}{}
			var kids []kv
			for _, e := range x {
				if em, ok := e.(map[string]interface{}); ok && len(em) == 1 && !singleAttrOrText(em) {
					for tag, val := range em {
						kids = append(kids, imageChildren(tag, val)...)
					}
				} else {
					kids = append(kids, imageChildren(et, e)...)
				}
			}
			for _, c := range kids {
				if old, ok := wrap[c.k]; ok {
					if l, isList := old.([]interface{}); isList {
						wrap[c.k] = append(l, c.v)
					} else {
						wrap[c.k] = []interface{}{old, c.v}
					}
				} else {
					wrap[c.k] = c.v
				}
			}
			if len(wrap) == 0 {
				return map[string]interface{}{rt: ""}
			}
			return map[string]interface{}{rt: wrap}
		default:
			cs := imageChildren(rt, v)
			return map[string]interface{}{rt: cs[0].v}
		}
	}
}

// xenc ap textK esc goEmpty api val rt et
// xenci attrPrefix textK escape goEmpty prefix indent map rootTag : Map.XmlIndent beside
// Mxj.Model.EncodeIndent.mapXmlIndent (byte for byte)
func c03IndentExec(op string) string {
	c, _ := newCur(op)
	ap := c.str()
	c.str()
	esc := c.boolean()
	goEmpty := c.boolean()
	pfx := c.str()
	ind := c.str()
	m := c.mapVal()
	rt := c.str()
	if c.err != nil {
		return "bad-op " + c.err.Error()
	}
	mxj.SetAttrPrefix(ap)
	mxj.XMLEscapeChars(esc)
	if goEmpty {
		mxj.XmlGoEmptyElemSyntax()
	}
	var b []byte
	var err error
	if rt == "" {
		b, err = mxj.Map(m).XmlIndent(pfx, ind)
	} else {
		b, err = mxj.Map(m).XmlIndent(pfx, ind, rt)
	}
	if err != nil {
		return "err"
	}
	// the Writer form writes exactly these bytes
	var w bytes.Buffer
	note := ""
	var werr error
	if rt == "" {
		werr = mxj.Map(m).XmlIndentWriter(&w, pfx, ind)
	} else {
		werr = mxj.Map(m).XmlIndentWriter(&w, pfx, ind, rt)
	}
	if werr != nil || w.String() != string(b) {
		note = "XmlIndentWriter writes something else than XmlIndent returns"
	}
	return "ok " + encStr(string(b)) + " | " + note
}

// tokBalanced: the stack check of Mxj.EncTok.balanced (lean/Mxj/Model/Balanced.lean) on the raw
// tokens of encoding/xml: start/end tags properly nested with matching (prefix, local) names,
// exactly one root element, character data only inside it; comments, processing instructions
// and directives anywhere.
func tokBalanced(toks []xml.Token) bool {
	var st []xml.Name
	roots := 0
	for _, t := range toks {
		switch x := t.(type) {
		case xml.StartElement:
			if len(st) == 0 {
				if roots != 0 {
					return false
				}
				roots++
			}
			st = append(st, x.Name)
		case xml.EndElement:
			if len(st) == 0 || st[len(st)-1] != x.Name {
				return false
			}
			st = st[:len(st)-1]
		case xml.CharData:
			if len(st) == 0 {
				return false
			}
		}
	}
	return len(st) == 0 && roots == 1
}

// xenct (same arguments as xenc): the compact encoder's bytes, the tokens encoding/xml reads
// from them and the stack check on those tokens; the model answers with its own bytes, the
// tokenizer model's tokens and the verdict of `balanced` (C03_tok_well_formed at work).
func c03TokExec(op string) string {
	c, _ := newCur(op)
	ap := c.str()
	c.str()
	esc := c.boolean()
	goEmpty := c.boolean()
	api := c.nat()
	v := c.val()
	rt := c.str()
	et := c.str()
	if c.err != nil {
		return "bad-op " + c.err.Error()
	}
	mxj.SetAttrPrefix(ap)
	imgPrefix = ap
	defer func() { imgPrefix = "-" }()
	mxj.XMLEscapeChars(esc)
	if goEmpty {
		mxj.XmlGoEmptyElemSyntax()
	}
	var b []byte
	var err error
	switch api {
	case 0:
		b, err = mxj.Map(v.(map[string]interface{})).Xml()
	case 1:
		b, err = mxj.Map(v.(map[string]interface{})).Xml(rt)
	case 2:
		b, err = mxj.AnyXml(v, rt, et)
	case 3:
		b, err = mxj.AnyXml(v)
		rt, et = "doc", "element"
	}
	if err != nil {
		return "err"
	}
	r := refTokens(b)
	if strings.HasPrefix(r, "tokskip") {
		return r
	}
	bal := "x"
	if r != "tok err" {
		raw, _ := allTokens(b, true)
		bal = fmt.Sprint(b2i(tokBalanced(raw)))
	}
	note := ""
	if imageDoc(api, v, rt, et) != nil && bal != "1" {
		note = "TOKBAL the encoder's output is not a balanced single-root token stream (bal " + bal + "): " + clip(string(b), 200)
	}
	return "ok " + encStr(string(b)) + " | " + r + " | bal " + bal + " ;; " + note
}

func c03TokJudge(op, impl, model string) Verdict {
	v := Verdict{Tags: []string{"xenct"}}
	if strings.HasPrefix(model, "skip-") || strings.HasPrefix(impl, "tokskip") {
		v.Skipped, v.CorrOK = true, true
		v.Tags = append(v.Tags, "xenct:skip")
		return v
	}
	if strings.HasPrefix(impl, "panic") {
		v.OracleFail = "encoder panicked: " + impl
		v.Sig = "xenct:panic"
		return v
	}
	ip := strings.SplitN(impl, " ;; ", 2)
	v.CorrOK = strings.TrimSpace(ip[0]) == model
	v.Nontrivial = strings.HasPrefix(impl, "ok")
	if strings.HasSuffix(strings.TrimSpace(ip[0]), "| bal 1") {
		v.Tags = append(v.Tags, "xenct:balanced")
	} else if v.Nontrivial {
		v.Tags = append(v.Tags, "xenct:unbalanced")
	}
	if len(ip) > 1 && strings.TrimSpace(ip[1]) != "" {
		v.OracleFail = ip[1]
		v.Sig = "xenct:TOKBAL"
	}
	return v
}

func c03Exec(op string) string {
	if strings.HasPrefix(op, "xenci ") {
		return c03IndentExec(op)
	}
	if strings.HasPrefix(op, "xenct ") {
		return c03TokExec(op)
	}
	c, _ := newCur(op)
	ap := c.str()
	c.str()
	esc := c.boolean()
	goEmpty := c.boolean()
	api := c.nat()
	v := c.val()
	rt := c.str()
	et := c.str()
	if c.err != nil {
		return "bad-op " + c.err.Error()
	}
	mxj.SetAttrPrefix(ap)
	imgPrefix = ap
	defer func() { imgPrefix = "-" }()
	mxj.XMLEscapeChars(esc)
	if goEmpty {
		mxj.XmlGoEmptyElemSyntax()
	}
	bystanders()
	var b, bi []byte
	var err, erri error
	switch api {
	case 0:
		b, err = mxj.Map(v.(map[string]interface{})).Xml()
		bi, erri = mxj.Map(v.(map[string]interface{})).XmlIndent("", "  ")
	case 1:
		b, err = mxj.Map(v.(map[string]interface{})).Xml(rt)
		bi, erri = mxj.Map(v.(map[string]interface{})).XmlIndent(" ", "\t", rt)
	case 2:
		b, err = mxj.AnyXml(v, rt, et)
		bi, erri = mxj.AnyXmlIndent(v, "", "  ", rt, et)
	case 3:
		b, err = mxj.AnyXml(v)
		bi, erri = mxj.AnyXmlIndent(v, "", " ")
		rt, et = "doc", "element"
	}
	if err != nil {
		return "err"
	}
	notes := []string{}
	// the document stays what it was while other documents are encoded
	kept := string(b)
	other := map[string]interface{}{"zz": []interface{}{"another", "document"}, "-n": 1.0}
	mxj.Map(other).Xml()
	mxj.Map(other).Xml("root")
	mxj.AnyXml(other, "root", "el")
	mxj.AnyXml([]interface{}{"x", other})
	if string(b) != kept {
		notes = append(notes, "KEPT the bytes the encoder returned changed while another value was encoded")
	}
	want := imageDoc(api, v, rt, et)
	check := func(label string, out []byte, e error) {
		if e != nil {
			notes = append(notes, label+" encoder failed: "+oneLine(e.Error()))
			return
		}
		if want == nil {
			return // several roots: outside the root clause of the property
		}
		if ok, why := wellFormedSingleRoot(out); !ok {
			notes = append(notes, label+" output "+why+": "+clip(string(out), 200))
			return
		}
		m, derr := mxj.NewMapXml(out)
		if derr != nil {
			notes = append(notes, label+" output does not decode: "+oneLine(derr.Error()))
			return
		}
		if enc(map[string]interface{}(m)) != enc(want) {
			notes = append(notes, label+" output loses or moves data: want "+clip(enc(want), 300)+" got "+clip(enc(map[string]interface{}(m)), 300)+" xml "+clip(string(out), 300))
		}
	}
	check("compact", b, nil)
	if esc {
		check("indented", bi, erri)
	}
	if len(notes) == 0 && wellFormedAll(b) {
		// the post-encode validity check accepts what the encoders wrote: same bytes, no error
		mxj.XmlCheckIsValid(true)
		var bv []byte
		var ev error
		switch api {
		case 0:
			bv, ev = mxj.Map(v.(map[string]interface{})).Xml()
		case 1:
			bv, ev = mxj.Map(v.(map[string]interface{})).Xml(rt)
		case 2:
			bv, ev = mxj.AnyXml(v, rt, et)
		case 3:
			bv, ev = mxj.AnyXml(v)
		}
		mxj.XmlCheckIsValid(false)
		if ev != nil || !bytes.Equal(bv, b) {
			notes = append(notes, fmt.Sprintf("VALIDCHECK with XmlCheckIsValid the encoder rejects or changes its own well-formed output (%v): %s", ev, clip(string(b), 160)))
		}
	}
	if mv, isMap := v.(map[string]interface{}); isMap && api == 0 && len(notes) == 0 && ap == "-" && hashStr(op)%3 == 0 {
		if wn := wrapJsonToXml(mv); wn != "" {
			notes = append(notes, wn)
		}
	}
	if len(notes) == 0 {
		// a value that references one (non-empty) sub-map or list from several places, and nil maps in
		// several places, is encoded like the tree it denotes (its deep copy)
		sv := deepCopy(v)
		internShared(sv)
		if mm, ok := sv.(map[string]interface{}); ok && len(mm) > 1 {
			var nilMap map[string]interface{}
			mm["znil1"], mm["znil2"] = nilMap, nilMap
		}
		pv := deepCopy(sv)
		enc1 := func(x interface{}) ([]byte, error) {
			switch api {
			case 0:
				return mxj.Map(x.(map[string]interface{})).Xml()
			case 1:
				return mxj.Map(x.(map[string]interface{})).Xml(rt)
			case 2:
				return mxj.AnyXml(x, rt, et)
			}
			return mxj.AnyXml(x)
		}
		bs, es := enc1(sv)
		bp, ep := enc1(pv)
		if (es == nil) != (ep == nil) || !bytes.Equal(bs, bp) {
			notes = append(notes, fmt.Sprintf("SHARED a value with sub-maps referenced from several places is encoded differently from its deep copy (%v): %s", es, clip(string(bs), 160)))
		}
	}
	// the same content in other Go container types (lists of strings as []string anywhere; below the
	// levels the root rules look at also mxj.Map, map[interface{}]interface{}, map[string]string):
	// the encoders treat them as the plain containers - same bytes
	if tv := retypeBelowRoot(v, hashStr(op), "MYSLB"); len(notes) == 0 && enc(tv) != enc(v) {
		var bt, bti []byte
		var et1, et2 error
		switch api {
		case 0:
			bt, et1 = mxj.Map(tv.(map[string]interface{})).Xml()
			bti, et2 = mxj.Map(tv.(map[string]interface{})).XmlIndent("", "  ")
		case 1:
			bt, et1 = mxj.Map(tv.(map[string]interface{})).Xml(rt)
			bti, et2 = mxj.Map(tv.(map[string]interface{})).XmlIndent(" ", "\t", rt)
		case 2:
			bt, et1 = mxj.AnyXml(tv, rt, et)
			bti, et2 = mxj.AnyXmlIndent(tv, "", "  ", rt, et)
		case 3:
			bt, et1 = mxj.AnyXml(tv)
			bti, et2 = mxj.AnyXmlIndent(tv, "", " ")
		}
		if et1 != nil || !bytes.Equal(bt, b) {
			notes = append(notes, "TYPED the same content held in other Go container types ("+clip(enc(tv), 120)+") is encoded differently: "+clip(string(bt), 200)+" instead of "+clip(string(b), 200))
		} else if (et2 == nil) != (erri == nil) || !bytes.Equal(bti, bi) {
			notes = append(notes, "TYPED the same content held in other Go container types is indented differently: "+clip(string(bti), 200))
		}
	}
	return "ok " + encStr(string(b)) + " | " + strings.Join(notes, "; ")
}

func c03Describe(op string) string {
	if strings.HasPrefix(op, "xenci ") {
		c, _ := newCur(op)
		ap := c.str()
		c.str()
		esc, ge := c.boolean(), c.boolean()
		pfx, ind := c.str(), c.str()
		m := c.mapVal()
		return fmt.Sprintf("Map.XmlIndent(prefix=%q, indent=%q, rootTag=%q) attrPrefix=%q escaping=%v goEmpty=%v map=%s", pfx, ind, c.str(), ap, esc, ge, jsonOf(m))
	}
	c, _ := newCur(op)
	ap := c.str()
	c.str()
	esc := c.boolean()
	ge := c.boolean()
	api := c.nat()
	v := c.val()
	return fmt.Sprintf("encode api=%d (0 Map.Xml, 1 Map.Xml(root), 2 AnyXml(v,root,elem), 3 AnyXml(v)) attrPrefix=%q escaping=%v goEmpty=%v value=%s", api, ap, esc, ge, jsonOf(v))
}

func c03Judge(op, impl, model string) Verdict {
	if strings.HasPrefix(op, "xenct ") {
		return c03TokJudge(op, impl, model)
	}
	v := Verdict{Tags: []string{"xenc"}}
	if strings.HasPrefix(model, "skip-") {
		v.Skipped, v.CorrOK = true, true
		return v
	}
	if strings.HasPrefix(impl, "panic") {
		v.OracleFail = "encoder panicked: " + impl
		v.Sig = "xenc:panic"
		return v
	}
	ip := splitModel(impl)
	v.CorrOK = ip[0] == model
	if strings.HasPrefix(op, "xenci ") {
		v.Tags = []string{"xenci"}
		v.CorrOK = ip[0] == model || (ip[0] == "err" && strings.HasPrefix(model, "err"))
	}
	v.Nontrivial = strings.HasPrefix(impl, "ok")
	if len(ip) > 1 && ip[1] != "" {
		v.OracleFail = ip[1]
		v.Sig = "xenc:" + strings.Join(strings.Fields(ip[1])[:3], "-")
	}
	return v
}

var xmlValueNames = []string{"a", "b", "c", "item", "k", "list", "n.a", "A", "a-b", "x_y"}

// jsonValue: maps, lists (scalars, maps, mixed, nested, empty), strings, numbers, bools, nulls;
// attribute entries with scalar values; text entries.
// oddFloat: float64 values whose %v text is not the obvious one (exponent forms, whole numbers
// beyond the int64 and uint64 ranges, beyond 2^53, tiny fractions)
func (r *Rng) oddFloat() float64 {
	return []float64{1e6, 1234567, 1e19, 1e20, 18446744073709551616, -9.3e18, -3e25, 1e21, 1e-7, 0.1, 2.5e-5, 9007199254740992, 9007199254740993, -0.5, 123456789.125}[r.Intn(15)]
}

func (r *Rng) c03Value(depth int, inList bool) interface{} {
	if depth >= 4 || r.P(35) {
		switch r.Intn(8) {
		case 0:
			return nil
		case 1:
			if r.P(30) {
				return r.oddFloat()
			}
			if r.P(20) {
				// the other numeric types a Map may hold
				return []interface{}{int(r.Intn(1000)) - 500, int64(1) << uint(r.Intn(62)), json.Number(r.Pick([]string{"1", "2.50", "-0", "1e3", "9007199254740993"})), int(0), int64(-9223372036854775808)}[r.Intn(5)]
			}
			return float64(r.Intn(100)) / 4
		case 2:
			return r.Bool()
		case 3:
			return ""
		default:
			return r.Pick(xmlTexts)
		}
	}
	if r.P(35) {
		n := r.Intn(4)
		l := make([]interface{}, 0, n)
		for i := 0; i < n; i++ {
			l = append(l, r.c03Value(depth+1, true))
		}
		return l
	}
	return r.c03Map(depth + 1)
}

func (r *Rng) c03Map(depth int) map[string]interface{} {
	m := map[string]interface{}{}
	n := r.Intn(4)
	for i := 0; i < n; i++ {
		m[r.Pick(xmlValueNames)] = r.c03Value(depth, false)
	}
	if r.P(30) {
		for i := 0; i < 1+r.Intn(2); i++ {
			var av interface{} = r.Pick(xmlTexts)
			if r.P(25) {
				av = ""
			}
			switch r.Intn(4) {
			case 0:
				av = float64(r.Intn(9))
				if r.P(25) {
					av = r.oddFloat()
				}
			case 1:
				av = r.Bool()
			}
			m["-"+r.Pick(xmlAttrNames)] = av
		}
	}
	if r.P(25) {
		m["#text"] = r.Pick(xmlTexts)
		if r.P(15) {
			m["#text"] = "" // an empty text value beside attributes and/or children
		}
	}
	return m
}

// rePrefix renames the "-x" attribute keys to prefix+"x"; withBare adds a key equal to the prefix.
func rePrefix(v interface{}, prefix string, withBare bool) interface{} {
	switch x := v.(type) {
	case map[string]interface{}:
		o := map[string]interface{}{}
		for k, e := range x {
			if strings.HasPrefix(k, "-") {
				o[prefix+k[1:]] = e
			} else {
				o[k] = rePrefix(e, prefix, withBare)
			}
		}
		if withBare && len(o) > 0 {
			o[prefix] = "bare"
		}
		return o
	case []interface{}:
		o := make([]interface{}, len(x))
		for i, e := range x {
			o[i] = rePrefix(e, prefix, withBare)
		}
		return o
	}
	return v
}

func c03Gen(r *Rng, n int) []string {
	var ops []string
	for len(ops) < n {
		if r.P(25) {
			m := r.c03Map(1)
			if r.P(50) {
				m = map[string]interface{}{r.Pick(xmlValueNames): r.c03Map(1)}
			}
			rt := ""
			if r.P(30) {
				rt = r.Pick([]string{"root", "doc", "r"})
			}
			ops = append(ops, fmt.Sprintf("xenci %s %s %d %d %s %s %s %s", encStr("-"), encStr("#text"), b2i(r.P(60)), b2i(r.P(15)),
				encStr(r.Pick([]string{"", "", " ", "  ", "\t", "xx"})), encStr(r.Pick([]string{"  ", " ", "\t", "", "--"})), enc(m), encStr(rt)))
			continue
		}
		api := r.Intn(4)
		var v interface{}
		if api <= 1 {
			v = r.c03Map(1)
		} else {
			v = r.c03Value(0, false)
		}
		goEmpty := r.P(15)
		ap := "-"
		if r.P(20) {
			// another attribute prefix: the "-x" keys of the value become "<prefix>x" keys, and now
			// and then a key is exactly the prefix (an element of that name, not an attribute)
			ap = r.Pick([]string{"_", "__", "attr", "@"})
			v = rePrefix(v, ap, r.P(40) && ap != "@")
		}
		args := fmt.Sprintf("%s %s 1 %d %d %s %s %s", encStr(ap), encStr("#text"), b2i(goEmpty), api, enc(v), encStr(r.Pick([]string{"root", "doc", "r"})), encStr(r.Pick([]string{"element", "e", "item"})))
		ops = append(ops, "xenc "+args)
		// the same call through the tokenizer: bytes, tokens and the balanced check, both sides
		if len(ops) < n && r.P(35) {
			ops = append(ops, "xenct "+args)
		}
	}
	return ops
}

func init() {
	register(&Prop{
		ID:        "C03",
		Rule:      "JSON-shaped values of depth <= 4: maps with valid XML names, '-' attribute entries with scalar values, '#text' entries, lists of scalars / maps / mixed / nested / empty, nulls, numbers, booleans, strings with XML special characters; four entry points (Map.Xml, Map.Xml(root), AnyXml with and without tags) each also through its indented form; about a quarter of the calls again as xenct: the compact bytes tokenized by encoding/xml and by the tokenizer model, token by token, with the balanced-stream check (nested matching tags, one root) on both sides; escaping on; non-trivial = encoding succeeded; distinct = distinct op lines",
		Gen:       c03Gen,
		Exec:      c03Exec,
		Judge:     c03Judge,
		Describe:  c03Describe,
		QuickN:    3000*2,
		ThoroughN: 150000,
	})
}

func singleAttrOrText(m map[string]interface{}) bool {
	for k := range m {
		if k == "#text" || (len(k) > len(imgPrefix) && strings.HasPrefix(k, imgPrefix)) {
			return true
		}
	}
	return false
}
