package main

// core.go - the case pipeline: corpus + generated op lines -> implementation observation
// (in-process, under recover) -> Lean model driver (one batch) -> judge.

import (
	"bufio"
	"bytes"
	"encoding/json"
	"fmt"
	"os"
	"os/exec"
	"path/filepath"
	"sort"
	"strings"
	"time"

	mxj "github.com/clbanning/mxj/v2"
)

// Verdict is the judgement of one case.
type Verdict struct {
	CorrOK     bool     // implementation observation == model observation
	OracleFail string   // non-empty: the property's own statement fails on the implementation
	Sig        string   // signature of the oracle failure (matched against known_findings.txt)
	Nontrivial bool     // the case exercises a non-default branch (rule in Prop.Rule)
	Tags       []string // distribution counters
	Skipped    bool     // outside the model (e.g. invalid UTF-8): correspondence not evaluated
}

// Prop is one property's machinery.
type Prop struct {
	ID string
	// Rule says how cases are generated and what makes one non-trivial.
	Rule string
	// Gen produces n op lines from the PRNG.
	Gen func(r *Rng, n int) []string
	// Exec runs the real code for one op line and returns its canonical observation.
	Exec func(op string) string
	// Judge compares implementation and model observations and evaluates the direct oracle.
	Judge func(op, impl, model string) Verdict
	// Describe renders an op line for humans (samples, replays).
	Describe func(op string) string
	// QuickN / ThoroughN: generated cases per tier.
	QuickN, ThoroughN int
	// Isolate runs the implementation side in child processes (a fatal runtime error - stack
	// overflow, out of memory - or a hang then costs one case, not the whole check).
	Isolate bool
	// Fixed produces op lines that run on every check before the generated ones (regression
	// inputs of repaired defects, exhaustive finite families).
	Fixed func() []string
	// Extra runs implementation-only checks that do not go through the model (optional).
	Extra func(r *Rng, tier string, res *Result)
	// Ambient: option calls that are documented NOT to influence what this property observes (the
	// frame theorem CxxExtFrame says so about the current source).  One case in four runs with some
	// of them applied beforehand - which ones is a function of the case line, so a replay repeats
	// it - and must still agree with the model, which knows nothing of them.
	Ambient []func()
}

// applyAmbient: a subset of p.Ambient chosen by the case line.
func applyAmbient(p *Prop, op string) {
	if len(p.Ambient) == 0 {
		return
	}
	h := hashStr(op)
	if h%4 != 0 {
		return
	}
	h /= 4
	for i := 0; i < 3; i++ {
		p.Ambient[h%uint64(len(p.Ambient))]()
		h = h/uint64(len(p.Ambient)) + 7
	}
}

// ambientQueryOpts: everything except the field separator and the result capacity - none of it is an
// option of the path / key / update / new-map functions.
var ambientQueryOpts = []func(){
	func() { mxj.LeafUseDotNotation(true) },
	func() { mxj.SetAttrPrefix("@") },
	func() { mxj.SetAttrPrefix("") },
	func() { mxj.CoerceKeysToLower(true) },
	func() { mxj.CoerceKeysToSnakeCase(true) },
	func() { mxj.IncludeTagSeqNum(true) },
	func() { mxj.XMLEscapeChars(true) },
	func() { mxj.XMLEscapeCharsDecoder(true) },
	func() { mxj.CastNanInf(true) },
	func() { mxj.CastValuesToInt(true) },
	func() { mxj.DecodeSimpleValuesAsMap(true) },
	func() { mxj.SetGlobalKeyMapPrefix("_") },
	func() { mxj.XmlGoEmptyElemSyntax() },
	func() { mxj.DisableTrimWhiteSpace(true) },
	func() { mxj.XmlCheckIsValid(true) },
	func() { mxj.SetCheckTagToSkipFunc(func(string) bool { return true }) },
}

type Failure struct {
	Op     string `json:"op"`
	Desc   string `json:"desc"`
	Impl   string `json:"impl"`
	Model  string `json:"model"`
	Reason string `json:"reason"`
	Sig    string `json:"sig,omitempty"`
	Replay string `json:"replay,omitempty"`
}

type Result struct {
	Property      string         `json:"property"`
	Tier          string         `json:"tier"`
	Seed          int64          `json:"seed"`
	Evaluations   int            `json:"evaluations"`
	Distinct      int            `json:"distinct_nontrivial"`
	CorpusCases   int            `json:"corpus_cases"`
	Skipped       int            `json:"skipped"`
	Rule          string         `json:"rule"`
	Samples       []string       `json:"samples"`
	Tags          map[string]int `json:"tags"`
	OracleFails   []Failure      `json:"oracle_failures"`
	KnownFindings []Failure      `json:"known_findings"`
	CorrMismatch  []Failure      `json:"corr_mismatches"`
	SearchRan     bool           `json:"search_ran"`
	ImplOnly      int            `json:"impl_only_checks"`
	WallS         float64        `json:"wall_s"`
	Notes         []string       `json:"notes,omitempty"`
}

var props = map[string]*Prop{}

// caseOverride (-n) replaces the tier's number of generated cases when positive.
var caseOverride int

func register(p *Prop) { props[p.ID] = p }

// judgeOp: a state leak seen by the bystander calls is a failure of whatever property the case belongs
// to (its functions then depend on what was called before them); everything else is the property's
// own judge.
func judgeOp(p *Prop, op, impl, model string) Verdict {
	if strings.HasPrefix(impl, "stateleak ") {
		return Verdict{Nontrivial: true, CorrOK: true, OracleFail: strings.TrimPrefix(impl, "stateleak "), Sig: "stateleak"}
	}
	return p.Judge(op, impl, model)
}

// bystanders: calls of functions that are NOT option setters, made by the harnesses right after they
// have set the options of a case (one case in three, decided by the case line): documents that
// decode and documents that do not, encoders, queries, BeautifyXml, a bulk handler.  None of them
// may change an option variable (hook dump before = after); what the case observes afterwards is
// compared with the model as usual, so a call that disturbs a later one is seen there as well.
var curOp string
var stateLeak string

func bystanders() {
	if hashStr(curOp)%3 != 0 {
		return
	}
	before := dumpOptions()
	good := []byte(`<a x="1"><b-c>1</b-c><d>t &amp; u</d><!--c--></a>`)
	for _, d := range [][]byte{good, []byte("<a><b></a>"), []byte("<a>"), []byte("</a>"), nil} {
		mxj.BeautifyXml(d, "", " ")
		mxj.NewMapXml(d, true)
		mxj.NewMapXmlSeq(d)
		mxj.NewMapXmlReader(bytes.NewReader(d))
		mxj.HandleXmlReader(bytes.NewReader(d), func(mxj.Map) bool { return true }, func(error) bool { return false })
	}
	for _, d := range []string{`{"a":{"b":[1,"<&>"]}}`, `{"a":`, `[1]`, ``} {
		mxj.NewMapJson([]byte(d))
		mxj.NewMapJsonReader(strings.NewReader(d))
		mxj.HandleJsonReader(strings.NewReader(d), func(mxj.Map) bool { return true }, func(error) bool { return false })
	}
	m := mxj.Map{"a": map[string]interface{}{"-k": "v", "#text": "t<", "b": []interface{}{"x", map[string]interface{}{"c": 1.5}}}, "z": nil}
	m.Xml()
	m.XmlIndent("", " ")
	m.Json(true)
	m.JsonIndent("", " ")
	m.Copy()
	m.LeafNodes()
	m.ValuesForPath("a.b.c", "c:1.5")
	m.ValuesForKey("c", "!x:*")
	m.PathsForKey("c")
	m.NewMap("a.b:q")
	mxj.AnyXml([]interface{}{"s", 1.0, nil})
	mxj.Map{"bad": make(chan int)}.Json()
	mxj.Map{"a": map[string]interface{}{"-k": []interface{}{1}}}.Xml()
	if ms, err := mxj.NewMapXmlSeq(good); err == nil {
		ms.Xml()
		ms.XmlIndent("", " ")
	}
	if after := dumpOptions(); after != before && stateLeak == "" {
		stateLeak = "a function that is not an option setter changed the option variables: " + optDiff(before, after)
	}
}

func optDiff(a, b string) string {
	x, y := strings.Fields(a), strings.Fields(b)
	var d []string
	for i := range x {
		if i < len(y) && x[i] != y[i] {
			d = append(d, x[i]+" -> "+y[i])
		}
	}
	return strings.Join(d, ", ")
}

// safeExec runs the implementation under recover; a panic is an observation.
func safeExec(p *Prop, op string) string {
	if hung {
		return "skipped-after-hang"
	}
	done := make(chan string, 1)
	go func() {
		var out string
		defer func() {
			if e := recover(); e != nil {
				out = "panic " + oneLine(fmt.Sprint(e))
			}
			resetOptions()
			done <- out
		}()
		applyAmbient(p, op)
		curOp, stateLeak = op, ""
		out = p.Exec(op)
		if stateLeak != "" && !strings.HasPrefix(out, "panic") {
			out = "stateleak " + stateLeak
		}
	}()
	select {
	case out := <-done:
		return out
	case <-time.After(opTimeout()):
		// the goroutine cannot be stopped and may hold package state: everything after this op is
		// skipped and the run ends with this op as the failing input
		hung = true
		return "hang: the call did not return within " + opTimeout().String()
	}
}

// hung is set once an implementation call failed to return (non-termination is a failure of
// every property: "returns exactly ..." presupposes that it returns).
var hung bool

func opTimeout() time.Duration {
	if s := os.Getenv("VERIF_OP_TIMEOUT"); s != "" {
		if d, err := time.ParseDuration(s); err == nil {
			return d
		}
	}
	return 180 * time.Second
}

func oneLine(s string) string {
	s = strings.ReplaceAll(s, "\n", " ")
	if len(s) > 200 {
		s = s[:200]
	}
	return s
}

// runDriver pipes op lines through the model driver and returns one output per line.
func runDriver(driver string, ops []string) ([]string, error) {
	if len(ops) == 0 {
		return nil, nil
	}
	cmd := exec.Command(driver)
	var in bytes.Buffer
	for _, o := range ops {
		// an op line may carry implementation-only arguments after " ;"
		if i := strings.Index(o, " ;"); i >= 0 {
			o = o[:i]
		}
		in.WriteString(o)
		in.WriteByte('\n')
	}
	cmd.Stdin = &in
	var out, errb bytes.Buffer
	cmd.Stdout = &out
	cmd.Stderr = &errb
	if err := cmd.Run(); err != nil {
		return nil, fmt.Errorf("driver failed: %v: %s", err, errb.String())
	}
	var lines []string
	sc := bufio.NewScanner(&out)
	sc.Buffer(make([]byte, 1<<20), 1<<28)
	for sc.Scan() {
		lines = append(lines, sc.Text())
	}
	if len(lines) != len(ops) {
		return nil, fmt.Errorf("driver returned %d lines for %d ops", len(lines), len(ops))
	}
	return lines, nil
}

func loadCorpus(dir, id string) []string {
	var ops []string
	files, _ := filepath.Glob(filepath.Join(dir, id, "*.case"))
	sort.Strings(files)
	for _, f := range files {
		ops = append(ops, readOps(f)...)
	}
	return ops
}

func readOps(file string) []string {
	var ops []string
	b, err := os.ReadFile(file)
	if err != nil {
		return nil
	}
	for _, l := range strings.Split(string(b), "\n") {
		l = strings.TrimSpace(l)
		if l == "" || strings.HasPrefix(l, "//") {
			continue
		}
		ops = append(ops, l)
	}
	return ops
}

type knownFinding struct {
	Prop, ID, Sig, Text string
}

func loadKnown(file string) []knownFinding {
	var out []knownFinding
	b, err := os.ReadFile(file)
	if err != nil {
		return nil
	}
	for _, l := range strings.Split(string(b), "\n") {
		l = strings.TrimSpace(l)
		if !strings.HasPrefix(l, "finding:") {
			continue
		}
		kf := knownFinding{Text: l}
		for _, f := range strings.Fields(l) {
			switch {
			case strings.HasPrefix(f, "property="):
				kf.Prop = f[9:]
			case strings.HasPrefix(f, "id="):
				kf.ID = f[3:]
			case strings.HasPrefix(f, "sig="):
				kf.Sig = f[4:]
			}
		}
		out = append(out, kf)
	}
	return out
}

// evaluate runs a batch of op lines through implementation, model and judge.
func evaluate(p *Prop, driver string, ops []string, known []knownFinding, res *Result, replayDir string, seen map[string]bool) error {
	impl := make([]string, len(ops))
	if p.Isolate {
		execIsolated(p, ops, impl)
	} else {
		for i, op := range ops {
			t1 := time.Now()
			impl[i] = safeExec(p, op)
			if d := time.Since(t1); d > 2*time.Second && os.Getenv("VERIF_TIMING") != "" {
				fmt.Fprintf(os.Stderr, "SLOW impl %v: %s\n", d, clip(op, 150))
			}
		}
	}
	t2 := time.Now()
	model, err := runDriver(driver, ops)
	if os.Getenv("VERIF_TIMING") != "" {
		fmt.Fprintf(os.Stderr, "driver batch of %d ops: %v\n", len(ops), time.Since(t2))
		if time.Since(t2) > 5*time.Second {
			os.WriteFile("/tmp/slowbatch.ops", []byte(strings.Join(ops, "\n")+"\n"), 0o644)
		}
	}
	if err != nil {
		return err
	}
	for i, op := range ops {
		var v Verdict
		switch {
		case strings.HasPrefix(impl[i], "hang:"):
			v = Verdict{Nontrivial: true, OracleFail: "the implementation did not terminate on this input (" + impl[i] + ")", Sig: "hang"}
		case impl[i] == "skipped-after-hang":
			v = Verdict{Skipped: true}
		default:
			v = judgeOp(p, op, impl[i], model[i])
		}
		res.Evaluations++
		for _, t := range v.Tags {
			res.Tags[t]++
		}
		if v.Skipped {
			res.Skipped++
		}
		if v.Nontrivial && !seen[op] {
			seen[op] = true
			res.Distinct++
		}
		desc := op
		if p.Describe != nil {
			desc = p.Describe(op)
		}
		if len(res.Samples) < 6 && v.Nontrivial && i%7 == 0 {
			res.Samples = append(res.Samples, desc+"  =>  impl: "+clip(impl[i], 300)+"  model: "+clip(model[i], 300))
		}
		if v.OracleFail != "" {
			f := Failure{Op: op, Desc: desc, Impl: impl[i], Model: model[i], Reason: v.OracleFail, Sig: v.Sig}
			if kf := matchKnown(known, p.ID, v.Sig); kf != nil {
				if len(res.KnownFindings) < 50 {
					f.Reason = kf.ID + ": " + f.Reason
					res.KnownFindings = append(res.KnownFindings, f)
				}
			} else if len(res.OracleFails) < 20 {
				res.OracleFails = append(res.OracleFails, f)
			}
		} else if !v.CorrOK && !v.Skipped {
			if len(res.CorrMismatch) < 20 {
				res.CorrMismatch = append(res.CorrMismatch, Failure{Op: op, Desc: desc, Impl: impl[i], Model: model[i], Reason: "implementation and model observations differ"})
			}
		}
	}
	return nil
}

func matchKnown(known []knownFinding, prop, sig string) *knownFinding {
	if sig == "" {
		return nil
	}
	for i := range known {
		if known[i].Prop == prop && known[i].Sig == sig {
			return &known[i]
		}
	}
	return nil
}

func clip(s string, n int) string {
	if len(s) > n {
		return s[:n] + "…"
	}
	return s
}

// runProp is the whole check for one property; the caller turns Result into a verdict.
func runProp(p *Prop, tier string, seed int64, driver, verifDir string, mult int) (*Result, error) {
	t0 := time.Now()
	res := &Result{Property: p.ID, Tier: tier, Seed: seed, Rule: p.Rule, Tags: map[string]int{}}
	known := loadKnown(filepath.Join(verifDir, "known_findings.txt"))
	seen := map[string]bool{}
	replayDir := filepath.Join(verifDir, "replays")

	corpus := loadCorpus(filepath.Join(verifDir, "corpus"), p.ID)
	res.CorpusCases = len(corpus)
	if err := evaluate(p, driver, corpus, known, res, replayDir, seen); err != nil {
		return nil, err
	}

	if p.Fixed != nil {
		if err := evaluate(p, driver, p.Fixed(), known, res, replayDir, seen); err != nil {
			return nil, err
		}
	}
	n := p.QuickN
	if tier == "thorough" {
		n = p.ThoroughN
	}
	n *= mult
	if caseOverride > 0 {
		n = caseOverride
	}
	// several derived seeds so that one run covers more than one PRNG stream
	chunks := 4
	for c := 0; c < chunks && !hung; c++ {
		r := NewRng(uint64(seed)*1000003 + uint64(c)*7919 + 17)
		if p.Gen != nil {
			ops := p.Gen(r, n/chunks)
			if err := evaluate(p, driver, ops, known, res, replayDir, seen); err != nil {
				return nil, err
			}
		}
	}
	if p.Extra != nil && !hung {
		p.Extra(NewRng(uint64(seed)*31+5), tier, res)
	}

	// search phase: the correspondence broke but no failing input is known yet
	if len(res.CorrMismatch) > 0 && len(res.OracleFails) == 0 && mult == 1 && !hung {
		res.SearchRan = true
		r := NewRng(uint64(seed)*977 + 99)
		if p.Gen != nil {
			ops := p.Gen(r, n*10)
			if err := evaluate(p, driver, ops, known, res, replayDir, seen); err != nil {
				return nil, err
			}
		}
	}

	// write replays
	os.MkdirAll(replayDir, 0o755)
	for i := range res.OracleFails {
		f := &res.OracleFails[i]
		f.Replay = filepath.Join(replayDir, fmt.Sprintf("%s-%d-%d.case", p.ID, seed, i))
		body := "// " + f.Reason + "\n// " + f.Desc + "\n// impl:  " + clip(f.Impl, 2000) + "\n// model: " + clip(f.Model, 2000) + "\n" + f.Op + "\n"
		os.WriteFile(f.Replay, []byte(body), 0o644)
	}
	if len(res.OracleFails) == 0 && len(res.CorrMismatch) > 0 {
		path := filepath.Join(replayDir, fmt.Sprintf("%s-%d-broken.json", p.ID, seed))
		b, _ := json.MarshalIndent(map[string]interface{}{
			"property":        p.ID,
			"broken":          "correspondence",
			"what":            "the Lean model and the implementation disagree on the inputs below, so the theorems no longer speak about this code; no input on which the property itself fails was found by the search phase",
			"search_ran":      res.SearchRan,
			"disagreements":   res.CorrMismatch,
		}, "", " ")
		os.WriteFile(path, b, 0o644)
		for i := range res.CorrMismatch {
			res.CorrMismatch[i].Replay = path
		}
	}
	res.WallS = time.Since(t0).Seconds()
	return res, nil
}

// execIsolated runs the ops in child processes of this binary (`-execops file`), which print
// one observation per op.  When a child dies or hangs, the op it was working on is recorded as
// "crash ..." and a new child continues after it.
func execIsolated(p *Prop, ops []string, impl []string) {
	self, err := os.Executable()
	if err != nil {
		for i, op := range ops {
			impl[i] = safeExec(p, op)
		}
		return
	}
	start := 0
	for start < len(ops) {
		f, _ := os.CreateTemp("", "mxjverif-ops-")
		for _, op := range ops[start:] {
			f.WriteString(op + "\n")
		}
		f.Close()
		cmd := exec.Command(self, "-prop", p.ID, "-execops", f.Name())
		var out, errb bytes.Buffer
		cmd.Stdout = &out
		cmd.Stderr = &errb
		cmd.Env = append(os.Environ(), "GOMEMLIMIT=2GiB", "GODEBUG=")
		done := make(chan error, 1)
		cmd.Start()
		go func() { done <- cmd.Wait() }()
		timedOut := false
		select {
		case <-done:
		case <-time.After(120 * time.Second):
			cmd.Process.Kill()
			<-done
			timedOut = true
		}
		os.Remove(f.Name())
		lines := strings.Split(strings.TrimRight(out.String(), "\n"), "\n")
		if out.Len() == 0 {
			lines = nil
		}
		n := 0
		for _, l := range lines {
			if start+n < len(ops) && strings.HasPrefix(l, "=") {
				impl[start+n] = l[1:]
				n++
			}
		}
		start += n
		if start < len(ops) {
			why := "fatal runtime error: " + oneLine(firstLineOf(errb.String()))
			if timedOut {
				why = "did not terminate within 120 s"
			}
			impl[start] = "crash " + why
			start++
		}
	}
}

func firstLineOf(s string) string {
	for _, l := range strings.Split(s, "\n") {
		if strings.Contains(l, "fatal error") || strings.Contains(l, "runtime:") {
			return l
		}
	}
	if i := strings.Index(s, "\n"); i >= 0 {
		return s[:i]
	}
	return s
}
