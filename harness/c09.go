package main

// c09.go - LeafNodes / LeafPaths / LeafValues versus Mxj.Model.Leaf.

import (
	"fmt"
	"sort"
	"strings"

	mxj "github.com/clbanning/mxj/v2"
)

func countScalars(v interface{}) int {
	switch x := v.(type) {
	case map[string]interface{}:
		n := 0
		for _, e := range x {
			n += countScalars(e)
		}
		return n
	case []interface{}:
		n := 0
		for _, e := range x {
			n += countScalars(e)
		}
		return n
	}
	return 1
}

func encLeaves(ls []mxj.LeafNode) string {
	items := make([]string, 0, len(ls))
	for _, l := range ls {
		items = append(items, "[ "+encStr(l.Path)+" "+enc(l.Value)+" ]")
	}
	sort.Strings(items)
	if len(items) == 0 {
		return "[ ]"
	}
	return "[ " + strings.Join(items, " ") + " ]"
}

// leaf attrPrefix keyPrefixChar dot noattr m
func c09Exec(op string) string {
	c, name := newCur(op)
	if name != "leaf" {
		return "bad-op"
	}
	ap := c.str()
	tk := c.str()
	dot := c.boolean()
	noattr := c.boolean()
	m := c.mapVal()
	if c.err != nil {
		return "bad-op " + c.err.Error()
	}
	mxj.SetAttrPrefix(ap)
	if len(tk) > 0 {
		mxj.SetGlobalKeyMapPrefix(tk[:1])
	}
	// the option is reached through one of three call histories (explicit argument, toggle form
	// from the default, explicit opposite then toggle), chosen from the case itself
	switch h := len(op) % 3; {
	case h == 0:
		mxj.LeafUseDotNotation(dot)
	case h == 1 && dot:
		mxj.LeafUseDotNotation() // default is off
	case h == 1:
		mxj.LeafUseDotNotation(true)
		mxj.LeafUseDotNotation()
	case dot:
		mxj.LeafUseDotNotation(false)
		mxj.LeafUseDotNotation()
	default:
		// leave the default
	}
	if len(op)%2 == 0 {
		internShared(m)
	}
	mv := mxj.Map(m)
	before := deepCopy(m)
	// LeafPaths / LeafValues are projections of LeafNodes for the SAME option list, whatever its
	// length (the option is honoured only when exactly one flag is given)
	extraNote := ""
	for _, flags := range [][]bool{{noattr, false}, {noattr, true}, {true, false, true}} {
		ln := mv.LeafNodes(flags...)
		lp := mv.LeafPaths(flags...)
		lv := mv.LeafValues(flags...)
		if len(lp) != len(ln) || len(lv) != len(ln) {
			extraNote = fmt.Sprintf("FLAGS with option flags %v LeafNodes yields %d leaves, LeafPaths %d, LeafValues %d", flags, len(ln), len(lp), len(lv))
			break
		}
	}
	var ls []mxj.LeafNode
	if noattr {
		ls = mv.LeafNodes(mxj.NoAttributes) // the documented spelling of the option
	} else {
		ls = mv.LeafNodes()
	}
	notes := []string{}
	// enumeration clause: one entry per scalar (all entries when attributes are kept)
	if !noattr && len(ls) != countScalars(m) {
		notes = append(notes, fmt.Sprintf("count:%d-leaves-for-%d-scalars", len(ls), countScalars(m)))
	}
	// projections for the same option
	var lp []string
	var lv []interface{}
	if noattr {
		lp, lv = mv.LeafPaths(mxj.NoAttributes), mv.LeafValues(mxj.NoAttributes)
	} else {
		lp, lv = mv.LeafPaths(), mv.LeafValues()
	}
	var np []string
	var nv []interface{}
	for _, l := range ls {
		np = append(np, l.Path)
		nv = append(nv, l.Value)
	}
	sort.Strings(lp)
	sort.Strings(np)
	if strings.Join(lp, "\x00") != strings.Join(np, "\x00") || len(lp) != len(np) {
		notes = append(notes, "projection:LeafPaths")
	}
	if sortedList(encList(lv)) != sortedList(encList(nv)) {
		notes = append(notes, "projection:LeafValues")
	}
	// resolution clause (judged only where the model says the Map is in that clause's domain)
	unres := ""
	for _, l := range ls {
		vs, err := mv.ValuesForPath(l.Path)
		if err != nil || len(vs) != 1 || enc(vs[0]) != enc(l.Value) {
			unres = fmt.Sprintf("path %q resolves to %s (err %v) instead of [%s]", l.Path, clip(encList(vs), 200), err, enc(l.Value))
			break
		}
	}
	if !deepEq(before, m) {
		notes = append(notes, "receiver-modified")
	}
	if extraNote != "" {
		notes = append(notes, "projection:"+strings.ReplaceAll(extraNote, ",", ";"))
	}
	if len(notes) == 0 && hashStr(op)%3 == 0 {
		// the wrappers named among the observation points, beside the Map methods on the decoded text
		if wn := wrapLeafNodes(m); wn != "" {
			notes = append(notes, "projection:"+strings.ReplaceAll(wn, ",", ";"))
		}
	}
	res := "resolves"
	if unres != "" {
		res = "unresolved " + strings.ReplaceAll(unres, " | ", " ")
	}
	return "ok " + encLeaves(ls) + " | " + strings.Join(notes, ",") + " | " + res
}

func c09Describe(op string) string {
	c, _ := newCur(op)
	ap := c.str()
	tk := c.str()
	dot := c.boolean()
	noattr := c.boolean()
	m := c.mapVal()
	return fmt.Sprintf("LeafNodes attrPrefix=%q textKey=%q dotNotation=%v noAttributes=%v map=%s", ap, tk, dot, noattr, jsonOf(m))
}

func c09Judge(op, impl, model string) Verdict {
	v := Verdict{Tags: []string{"leaf"}}
	if strings.HasPrefix(model, "skip-") {
		v.Skipped, v.CorrOK = true, true
		return v
	}
	if strings.HasPrefix(impl, "panic") {
		v.OracleFail = "LeafNodes panicked: " + impl
		v.Sig = "leaf:panic"
		return v
	}
	ip, mp := splitModel(impl), splitModel(model)
	if len(ip) < 3 || len(mp) < 3 {
		return v
	}
	v.CorrOK = ip[0] == canonRes(mp[0], true)
	v.Nontrivial = ip[0] != "ok [ ]"
	c, _ := newCur(op)
	c.str()
	c.str()
	if c.boolean() {
		v.Tags = append(v.Tags, "leaf:dot")
	}
	if c.boolean() {
		v.Tags = append(v.Tags, "leaf:noattr")
	}
	if ip[1] != "" {
		v.OracleFail = "LeafNodes/LeafPaths/LeafValues clause fails: " + ip[1]
		v.Sig = "leaf:" + strings.Split(ip[1], ",")[0]
		if strings.HasPrefix(ip[1], "count:") {
			v.Sig = "leaf:count"
		}
		return v
	}
	if want := canonRes("ok "+mp[1], true); want != ip[0] {
		v.OracleFail = "LeafNodes is not the set of (path, scalar) pairs of the Map (for this option): want " + clip(want, 400) + " got " + clip(ip[0], 400)
		v.Sig = "leaf:spec"
		return v
	}
	if mp[2] == "res" {
		v.Tags = append(v.Tags, "leaf:resolution-domain")
		if ip[2] != "resolves" {
			v.OracleFail = "a leaf path does not resolve to exactly its value: " + ip[2]
			v.Sig = "leaf:resolve"
		}
	}
	return v
}

func c09Gen(r *Rng, n int) []string {
	var ops []string
	for len(ops) < n {
		cfg := jsonShape
		cfg.Keys = keyAlpha
		cfg.WideP = 1
		odd := r.P(25)
		if odd {
			cfg.OddKeys = true
			cfg.ListInList = r.Bool()
		}
		m := r.RootMap(&cfg)
		if r.P(15) {
			r.withDuplicates(m)
		}
		ap := "-"
		if r.P(30) {
			ap = r.Pick([]string{"", "@", "attr_", "-", "#"})
		}
		tk := "#text"
		if r.P(15) {
			tk = r.Pick([]string{"_text", "%text", "&text"})
		}
		if tk != "#text" {
			// make the alternative text key occur
			m[tk] = "txt"
		}
		dot := r.P(30)
		noattr := r.P(40)
		ops = append(ops, fmt.Sprintf("leaf %s %s %d %d %s", encStr(ap), encStr(tk), b2i(dot), b2i(noattr), enc(m)))
	}
	return ops
}

func init() {
	register(&Prop{
		ID:        "C09",
		Rule:      "Maps of XML/JSON shape over a key alphabet with attribute-like ('-x', '-id'), text ('#text'), namespaced and hyphenated keys; 25% with odd keys (empty, '.', '[0]', '*') and lists in lists for the enumeration clause; attribute prefixes '-', '', '@', 'attr_', '#'; alternative text keys; both notations and both no-attribute settings; non-trivial = at least one leaf; distinct = distinct op lines",
		Gen:       c09Gen,
		Exec:      c09Exec,
		Judge:     c09Judge,
		Describe:  c09Describe,
		QuickN:    3000*2,
		ThoroughN: 150000,
	})
}
