package main

// c07.go - ValuesForPath / ValueForPath / Exists versus the walker model and the frontier
// denotation (Mxj.Model.Path, Mxj.Model.Denote).

import (
	"strconv"
	"regexp"
	"fmt"
	"strings"

	mxj "github.com/clbanning/mxj/v2"
)

func errKindOf(err error) string {
	if err == nil {
		return ""
	}
	s := err.Error()
	switch {
	case err == mxj.PathNotExistError:
		return "pathNotExist"
	case err == mxj.KeyNotExistError:
		return "keyNotExist"
	case strings.HasPrefix(s, "unknown subkey spec"):
		return "subkeySpec"
	case strings.HasPrefix(s, "can't convert subkey value to bool"):
		return "subkeyBool"
	case strings.HasPrefix(s, "can't convert subkey value to float"):
		return "subkeyFloat"
	case strings.HasPrefix(s, "unknown subkey conversion spec"):
		return "subkeyType"
	case strings.HasPrefix(s, "no right bracket"):
		return "noRightBracket"
	case strings.HasPrefix(s, "cannot convert index"):
		return "badIndex"
	}
	return "other:" + oneLine(s)
}

func showRes(vs []interface{}, err error) string {
	if err != nil {
		return "err " + errKindOf(err)
	}
	if vs == nil {
		vs = []interface{}{}
	}
	return "ok " + encList(vs)
}

func c07Exec(op string) string {
	c, name := newCur(op)
	switch name {
	case "vfp", "exists":
		sep := c.str()
		m := c.mapVal()
		if len(op)%2 == 0 {
			internShared(m) // read-only queries: a Map may reference one sub-value from several places
		}
		path := c.str()
		subs := c.strList()
		c.val() // pf table: answers of strconv for the model
		arr := 0
		if c.pos < len(c.toks) {
			arr = c.nat()
		}
		if c.err != nil {
			return "bad-op " + c.err.Error()
		}
		mxj.SetFieldSeparator(sep)
		if arr > 0 {
			mxj.SetArraySize(arr)
		}
		if name == "exists" {
			ok, err := mxj.Map(m).Exists(path, subs...)
			// Exists is "ValuesForPath yields something" (a nil value is a value)
			note := ""
			vs, verr := mxj.Map(m).ValuesForPath(path, subs...)
			if idxOnWild(path) {
				// outside the domain: which value an index picks below a wildcard depends on map order
			} else if (verr == nil) != (err == nil) {
				note = fmt.Sprintf("EXISTS Exists error=%v but ValuesForPath error=%v", err, verr)
			} else if err == nil && ok != (len(vs) > 0) {
				note = fmt.Sprintf("EXISTS Exists=%v but ValuesForPath yields %d value(s)", ok, len(vs))
			}
			if err != nil {
				return "err " + errKindOf(err) + " | " + note
			}
			if ok {
				return "ok t | " + note
			}
			return "ok f | " + note
		}
		vs, err := mxj.Map(m).ValuesForPath(path, subs...)
		// k[i] as the last step selects the i-th of the values k alone would yield (also for keys
		// the model does not cover, e.g. keys that are not valid UTF-8)
		if note := lastIndexNote(m, path, subs, vs, err); note != "" {
			return showRes(vs, err) + " | " + note
		}
		if hashStr(op)%3 == 0 && arr == 0 {
			// the wrappers named among the observation points, beside the core composition
			if note := wrapValuesForPath(m, path, subs); note != "" {
				return showRes(vs, err) + " | LASTINDEX-OR-" + note
			}
		}
		return showRes(vs, err)
	case "vfp1":
		m := c.mapVal()
		if len(op)%2 == 0 {
			internShared(m) // read-only queries: a Map may reference one sub-value from several places
		}
		path := c.str()
		if c.err != nil {
			return "bad-op " + c.err.Error()
		}
		v, err := mxj.Map(m).ValueForPath(path)
		// ValueForPath is the first value of ValuesForPath (any of them under a wildcard), and
		// the documented not-found error when there is none
		note := ""
		vs, verr := mxj.Map(m).ValuesForPath(path)
		switch {
		case idxOnWild(path):
			// outside the domain (see above)
		case verr != nil:
			if err == nil {
				note = "FIRSTVALUE ValuesForPath fails but ValueForPath succeeds"
			}
		case len(vs) == 0:
			if err == nil {
				note = "FIRSTVALUE ValuesForPath yields nothing but ValueForPath returned a value"
			}
		case err != nil:
			note = "FIRSTVALUE ValuesForPath yields values but ValueForPath fails: " + oneLine(err.Error())
		default:
			found := false
			for _, x := range vs {
				if enc(x) == enc(v) {
					found = true
				}
			}
			if !found || (!hasWildSeg(path) && enc(vs[0]) != enc(v)) {
				note = "FIRSTVALUE ValueForPath returned " + clip(enc(v), 120) + ", which is not the first value of ValuesForPath " + clip(enc(vs), 200)
			}
		}
		// the string forms: the first value printed with %v, or an error / the empty string
		if note == "" && !idxOnWild(path) {
			sv, serr := mxj.Map(m).ValueForPathString(path)
			se := mxj.Map(m).ValueOrEmptyForPathString(path)
			switch {
			case (serr == nil) != (err == nil):
				note = fmt.Sprintf("FIRSTVALUE ValueForPathString error=%v but ValueForPath error=%v", serr, err)
			case err == nil && !hasWildSeg(path) && sv != fmt.Sprintf("%v", v):
				note = "FIRSTVALUE ValueForPathString returned " + clip(sv, 80) + " for the first value " + clip(fmt.Sprintf("%v", v), 80)
			case se != sv && !hasWildSeg(path):
				note = "FIRSTVALUE ValueOrEmptyForPathString differs from ValueForPathString"
			case err != nil && se != "":
				note = "FIRSTVALUE ValueOrEmptyForPathString is not empty for a path without values"
			}
		}
		if err != nil {
			return "err " + errKindOf(err) + " | " + note
		}
		return "ok " + enc(v) + " | " + note
	}
	return "bad-op"
}

var lastIdxRe = regexp.MustCompile(`^(.*)\[(\d+)\]$`)

func hasListInList(v interface{}, inList bool) bool {
	switch x := v.(type) {
	case map[string]interface{}:
		for _, e := range x {
			if hasListInList(e, false) {
				return true
			}
		}
	case []interface{}:
		if inList {
			return true
		}
		for _, e := range x {
			if hasListInList(e, true) {
				return true
			}
		}
	}
	return false
}

func lastIndexNote(m map[string]interface{}, path string, subs []string, vs []interface{}, err error) string {
	mm := lastIdxRe.FindStringSubmatch(path)
	if mm == nil || len(subs) > 0 || err != nil || strings.Contains(mm[1], "[") || strings.Contains(path, "*") || hasListInList(m, false) {
		return ""
	}
	if last := mm[1][strings.LastIndex(mm[1], ".")+1:]; last == "" {
		return ""
	}
	// (the index applies per parent: the oracle is used where there is exactly one parent)
	if j := strings.LastIndex(mm[1], "."); j >= 0 {
		parents, perr := mxj.Map(m).ValuesForPath(mm[1][:j])
		if perr != nil || len(parents) != 1 {
			return ""
		}
		if _, isMap := parents[0].(map[string]interface{}); !isMap {
			return ""
		}
	}
	base, berr := mxj.Map(m).ValuesForPath(mm[1])
	if berr != nil {
		return ""
	}
	i, _ := strconv.Atoi(mm[2])
	var want []interface{}
	if i < len(base) {
		want = []interface{}{base[i]}
	}
	if enc(want) != enc(vs) && !(len(want) == 0 && len(vs) == 0) {
		return fmt.Sprintf("LASTINDEX %q yields %s but the %d-th of the values of %q is %s", path, clip(enc(vs), 150), i, mm[1], clip(enc(want), 150))
	}
	return ""
}

func c07Describe(op string) string {
	c, name := newCur(op)
	switch name {
	case "vfp", "exists":
		sep := c.str()
		m := c.mapVal()
		path := c.str()
		subs := c.strList()
		if c.err != nil {
			return op
		}
		return fmt.Sprintf("%s sep=%q map=%s path=%q subkeys=%q", name, sep, jsonOf(m), path, subs)
	case "vfp1":
		m := c.mapVal()
		path := c.str()
		if c.err != nil {
			return op
		}
		return fmt.Sprintf("ValueForPath map=%s path=%q", jsonOf(m), path)
	}
	return op
}

func c07Judge(op, impl, model string) Verdict {
	c, name := newCur(op)
	v := Verdict{}
	if strings.HasPrefix(model, "skip-") {
		v.Skipped = true
		v.CorrOK = true
		// implementation-only oracles still count
		if ipx := splitModel(impl); name == "vfp" && len(ipx) > 1 && strings.HasPrefix(ipx[len(ipx)-1], "LASTINDEX") {
			v.OracleFail = ipx[len(ipx)-1]
			v.Sig = "vfp:lastindex"
		}
		return v
	}
	if name == "vfp" {
		if ipx := splitModel(impl); len(ipx) > 1 && strings.HasPrefix(ipx[len(ipx)-1], "LASTINDEX") {
			v.OracleFail = ipx[len(ipx)-1]
			v.Sig = "vfp:lastindex"
			impl = strings.Join(ipx[:len(ipx)-1], " | ")
		}
	}
	switch name {
	case "vfp":
		c.str()
		c.mapVal()
		path := c.str()
		subs := c.strList()
		unordered := hasWildSeg(path)
		parts := splitModel(model)
		mres := parts[0]
		spec := "na"
		if len(parts) > 1 {
			spec = parts[1]
		}
		v.CorrOK = canonRes(impl, unordered) == canonRes(mres, unordered)
		v.Nontrivial = impl != "ok [ ]"
		v.Tags = append(v.Tags, "vfp")
		if strings.Contains(path, "[") {
			v.Tags = append(v.Tags, "vfp:indexed")
		}
		if unordered {
			v.Tags = append(v.Tags, "vfp:wildcard")
		}
		if len(subs) > 0 {
			v.Tags = append(v.Tags, "vfp:subkeys")
		}
		if strings.HasPrefix(impl, "err") {
			v.Tags = append(v.Tags, "vfp:"+impl)
		} else if impl == "ok [ ]" {
			v.Tags = append(v.Tags, "vfp:nomatch")
		} else if strings.HasPrefix(impl, "ok") {
			v.Tags = append(v.Tags, "vfp:match")
		}
		if strings.HasPrefix(impl, "panic") {
			v.OracleFail = "ValuesForPath panicked: " + impl
			v.Sig = "vfp:panic"
			return v
		}
		if spec != "na" {
			want := canonRes("ok "+spec, unordered)
			got := canonRes(impl, unordered)
			if got != want {
				v.OracleFail = "ValuesForPath does not return what the path denotes: want " + clip(want, 400) + " got " + clip(got, 400)
				v.Sig = "vfp:denotation"
			}
		}
	case "vfp1":
		// with a wildcard the first value depends on map iteration order: any member will do
		c.mapVal()
		path := c.str()
		parts := splitModel(model)
		ipv := splitModel(impl)
		if len(ipv) > 1 && ipv[1] != "" {
			v.OracleFail = ipv[1]
			v.Sig = "vfp1:firstvalue"
		}
		impl = ipv[0]
		v.CorrOK = impl == parts[0]
		if !v.CorrOK && hasWildSeg(path) && len(parts) > 1 && strings.HasPrefix(impl, "ok ") {
			ms, _ := splitTop(parts[1])
			for _, m := range ms {
				if "ok "+m == impl {
					v.CorrOK = true
				}
			}
		}
		v.Nontrivial = strings.HasPrefix(impl, "ok")
		v.Tags = append(v.Tags, name)
		if strings.HasPrefix(impl, "panic") {
			v.OracleFail = name + " panicked: " + impl
			v.Sig = name + ":panic"
		}
	case "exists":
		ipv := splitModel(impl)
		if len(ipv) > 1 && ipv[1] != "" {
			v.OracleFail = ipv[1]
			v.Sig = "exists:consistency"
		}
		impl = ipv[0]
		v.CorrOK = impl == model
		v.Nontrivial = strings.HasPrefix(impl, "ok")
		v.Tags = append(v.Tags, name)
		if strings.HasPrefix(impl, "panic") {
			v.OracleFail = name + " panicked: " + impl
			v.Sig = name + ":panic"
		}
	default:
		v.CorrOK = impl == model
	}
	return v
}

func c07Gen(r *Rng, n int) []string {
	var ops []string
	for len(ops) < n {
		cfg := jsonShape
		if r.P(15) {
			cfg.ListInList = true
		}
		if r.P(30) {
			cfg.Keys = keyAlpha
		}
		m := r.RootMap(&cfg)
		if r.P(12) {
			// a document built around one path with several list levels on it (gen.go chainDoc);
			// DerivedPath then varies that path (wildcard, one index, several indexes)
			cm, cp := r.chainDoc(&cfg)
			m, r.chainMap, r.chainPath = cm, cm, cp
		}
		if r.P(8) {
			// several lists that together cross the initial result capacity (32 / SetArraySize)
			k := 2 + r.Intn(6)
			var items []interface{}
			for i := 0; i < k; i++ {
				n := 3 + r.Intn(14)
				var l []interface{}
				for x := 0; x < n; x++ {
					l = append(l, fmt.Sprintf("v%d_%d", i, x))
				}
				items = append(items, map[string]interface{}{"b": l, "c": map[string]interface{}{"b": l[:1+r.Intn(n)]}})
			}
			m = map[string]interface{}{"a": items, "k": "x"}
		}
		lookAhead := r.P(6)
		if lookAhead {
			// an un-indexed key directly before an indexed one, and more below the index: several
			// parents, each contributing several values
			recs := func() []interface{} {
				var l []interface{}
				for i := 0; i < 1+r.Intn(3); i++ {
					var tags []interface{}
					for x := 0; x < 1+r.Intn(4); x++ {
						tags = append(tags, fmt.Sprintf("t%d", x))
					}
					var tv interface{} = tags
					if r.P(25) {
						tv = "single"
					}
					l = append(l, map[string]interface{}{"tag": tv, "sub": []interface{}{map[string]interface{}{"tag": "s1"}, map[string]interface{}{"tag": "s2"}}})
				}
				return l
			}
			var items []interface{}
			for i := 0; i < 2+r.Intn(3); i++ {
				if r.P(15) {
					items = append(items, "scalar member")
				} else {
					items = append(items, map[string]interface{}{"rec": recs()})
				}
			}
			m = map[string]interface{}{"doc": map[string]interface{}{"item": items}}
		}
		if r.P(3) {
			// a key that is not valid UTF-8 (Maps are built by programs, not only by decoders)
			for _, k := range sortedKeys(m) {
				if _, isList := m[k].([]interface{}); isList || r.P(30) {
					m[r.Pick([]string{"caf\xe9", "\x80k", "a\xffb"})] = m[k]
					delete(m, k)
					break
				}
			}
		}
		starKey := r.P(5)
		if starKey {
			// an entry whose key is literally "*" beside others: a '*' step still selects every entry
			w := map[string]interface{}{"*": r.Scalar(&cfg), "a": r.Value(&cfg, 2, false), "b": r.Scalar(&cfg)}
			if r.Bool() {
				m["w"] = w
			} else {
				m["w"] = []interface{}{w, map[string]interface{}{"a": "z"}}
			}
		}
		for j := 0; j < 4; j++ {
			path := r.DerivedPath(m, true, 5)
			if r.P(2) {
				path = r.Pick([]string{"", "."}) // no step at all: the Map itself
			}
			if starKey && j < 2 {
				path = r.Pick([]string{"w.*", "*.*", "w.*.a", "w.a", "*"})
			}
			if lookAhead && r.P(80) {
				path = r.Pick([]string{"doc.item.rec[0].tag", "doc.item.rec[1].tag", "doc.item.rec[0].sub.tag", "doc.item.rec[0].*", "doc.item.rec[0]", "doc.item.rec[0].sub[1].tag", "doc.item[1].rec[0].tag", "*.item.rec[0].tag",
					// two indexed steps with a plain LIST step between them: the first parent contributes several values
					"doc.item.rec[0].sub.tag[0]", "doc.item.rec[1].sub.tag[0]", "doc.item.rec[0].sub.tag[1]", "doc.item.rec[0].tag[1]", "doc.item.rec[0].sub[0].tag[0]", "doc.item.rec.sub[1].tag[0]"})
			}
			if _, wide := m["a"].([]interface{}); wide && len(m) == 2 && r.P(70) {
				path = r.Pick([]string{"a.b", "a.c.b", "a.*.b", "*.b", "a.*", "a.b[1]", "a.c.b[0]"})
			}
			var subs []string
			sep := ":"
			if r.P(10) || (strings.HasSuffix(path, "]") && r.P(40)) {
				subs = genSubkeys(r, m, sep)
			}
			arr := 0
			if r.P(5) {
				arr = 40
			}
			ms := enc(m)
			ops = append(ops, fmt.Sprintf("vfp %s %s %s %s %s %d", encStr(sep), ms, encStr(path), encStrList(subs), pfTable(sep, subs), arr))
			if r.P(50) {
				ops = append(ops, fmt.Sprintf("vfp1 %s %s", ms, encStr(path)))
			}
			if r.P(35) {
				ops = append(ops, fmt.Sprintf("exists %s %s %s %s %s", encStr(sep), ms, encStr(path), encStrList(subs), pfTable(sep, subs)))
			}
		}
	}
	return ops
}

// genSubkeys derives sub-key conditions, mostly from keys/values that occur in the Map.
func genSubkeys(r *Rng, m map[string]interface{}, sep string) []string {
	var cands [][2]string
	var walk func(v interface{})
	walk = func(v interface{}) {
		switch x := v.(type) {
		case map[string]interface{}:
			for _, k := range sortedKeys(x) {
				switch s := x[k].(type) {
				case string:
					cands = append(cands, [2]string{k, s})
					if !strings.Contains(s, sep) {
						cands = append(cands, [2]string{k, s + sep + r.Pick([]string{"string", "char", "text"})})
					}
				case float64:
					cands = append(cands, [2]string{k, fmt.Sprintf("%v", s) + sep + "num"})
					// a condition on a number that is NOT the member but very close to it
					cands = append(cands, [2]string{k, fmt.Sprintf("%v", s*(1+2e-12)+1e-15) + sep + r.Pick([]string{"num", "float", "number"})})
				case bool:
					cands = append(cands, [2]string{k, fmt.Sprintf("%v", s) + sep + "bool"})
				}
				walk(x[k])
			}
		case []interface{}:
			for _, e := range x {
				walk(e)
			}
		}
	}
	walk(m)
	n := 1 + r.Intn(2)
	var out []string
	for i := 0; i < n; i++ {
		var k, val string
		if len(cands) > 0 && r.P(75) {
			c := cands[r.Intn(len(cands))]
			k, val = c[0], c[1]
		} else {
			k, val = r.Pick(plainKeys), r.Pick([]string{"x", "1", "true", "nope"})
		}
		if r.P(20) {
			val = "*"
		}
		if r.P(20) {
			k = "!" + k
		}
		s := k + sep + val
		if r.P(4) {
			s = r.Pick([]string{"novalue", "a" + sep + "b" + sep + "c" + sep + "d", "a" + sep + "x" + sep + "weird", "a" + sep + "zz" + sep + "bool", "a" + sep + "zz" + sep + "float"})
		}
		out = append(out, s)
	}
	return out
}

func init() {
	register(&Prop{
		ID:        "C07",
		Ambient:   ambientQueryOpts,
		Rule:      "Maps of JSON/XML shape from a small key alphabet (collisions at several depths, lists of scalars/maps/mixed, lists wider than the result capacity); paths derived from the Map (follow an existing key 70%, wildcard 10%, absent key 10%, indexes on list-valued keys, out-of-range indexes); a case is non-trivial when the path yields at least one value or an error; distinct = distinct op lines",
		Gen:       c07Gen,
		Exec:      c07Exec,
		Judge:     c07Judge,
		Describe:  c07Describe,
		QuickN:    4000*2,
		ThoroughN: 200000,
	})
}

// idxOnWild: some step of the path is a wildcard carrying an index ("*[1]").
func idxOnWild(path string) bool {
	for _, s := range strings.Split(path, ".") {
		if strings.HasPrefix(s, "*[") {
			return true
		}
	}
	return false
}
