package main

// c13.go - stream decoding under arbitrary io.Reader delivery schedules: the byte adaptors and
// the getJson scanner versus Mxj.Model.Stream; whole streams of documents through the reader,
// raw and handler forms versus direct decoding of each document (implementation oracles).

import (
	"path/filepath"
	"os"
	"bytes"
	"errors"
	"fmt"
	"io"
	"strings"

	mxj "github.com/clbanning/mxj/v2"
)

type rd struct {
	kind byte // '1' byte, 'E' byte+EOF, '0' (0,nil), 'Z' (0,EOF), 'F' (0, error)
	b    byte
}

var errScripted = errors.New("scripted read error")

// schedReader replays a schedule; afterwards it answers (0, io.EOF) forever.
type schedReader struct {
	s   []rd
	pos int
}

func (r *schedReader) Read(p []byte) (int, error) {
	if len(p) == 0 {
		return 0, nil
	}
	if r.pos >= len(r.s) {
		return 0, io.EOF
	}
	x := r.s[r.pos]
	r.pos++
	switch x.kind {
	case '1':
		p[0] = x.b
		return 1, nil
	case 'E':
		p[0] = x.b
		return 1, io.EOF
	case '0':
		return 0, nil
	case 'F':
		return 0, errScripted
	}
	return 0, io.EOF
}

func encSched(s []rd) string {
	var sb strings.Builder
	sb.WriteString("[ ")
	for _, x := range s {
		switch x.kind {
		case '1', 'E':
			sb.WriteString(encStr(string([]byte{x.kind, x.b})) + " ")
		default:
			sb.WriteString(encStr(string([]byte{x.kind})) + " ")
		}
	}
	sb.WriteString("]")
	return sb.String()
}

func (c *cur) sched() []rd {
	ss := c.strList()
	var out []rd
	for _, s := range ss {
		switch len(s) {
		case 2:
			out = append(out, rd{s[0], s[1]})
		case 1:
			out = append(out, rd{s[0], 0})
		}
	}
	return out
}

// mkSched delivers data under a random legal schedule: zero-length reads interspersed, the
// last byte possibly together with io.EOF, explicit (0, EOF) reads at the end.
func (r *Rng) mkSched(data string, zeroP int, lastWithEOF bool) []rd {
	var s []rd
	for i := 0; i < len(data); i++ {
		for r.P(zeroP) {
			s = append(s, rd{'0', 0})
		}
		if i == len(data)-1 && lastWithEOF {
			s = append(s, rd{'E', data[i]})
		} else {
			s = append(s, rd{'1', data[i]})
		}
	}
	for r.P(zeroP) {
		s = append(s, rd{'0', 0})
	}
	if r.P(30) {
		s = append(s, rd{'Z', 0})
	}
	return s
}

func jsonResKind(err error) string {
	switch {
	case err == nil:
		return "doc"
	case err == io.EOF:
		return "eof"
	case strings.HasPrefix(err.Error(), "no closing }"):
		return "noclose"
	case strings.HasPrefix(err.Error(), "closing } without"):
		return "stray"
	}
	return "ioerr"
}

func c13Exec(op string) string {
	c, name := newCur(op)
	switch name {
	case "getjson":
		s := c.sched()
		n := c.nat()
		if c.err != nil {
			return "bad-op " + c.err.Error()
		}
		rdr := &schedReader{s: s}
		var parts []string
		for i := 0; i < n; i++ {
			raw, isNil, err := mxj.VerifGetJson(rdr)
			if isNil {
				parts = append(parts, jsonResKind(err)+" NILRAW")
				continue
			}
			parts = append(parts, jsonResKind(err)+" "+encStr(string(raw)))
		}
		// the scanner's answers depend on the bytes only: the same bytes delivered in one piece (no
		// empty reads, no byte+EOF, no failing read) give the same sequence of results
		note := ""
		if !hasFail(s) {
			var data []byte
			for _, x := range s {
				if x.kind == '1' || x.kind == 'E' {
					data = append(data, x.b)
				}
			}
			plain := bytes.NewReader(data)
			var pp []string
			for i := 0; i < n; i++ {
				raw, isNil, err := mxj.VerifGetJson(plain)
				if isNil {
					pp = append(pp, jsonResKind(err)+" NILRAW")
					continue
				}
				pp = append(pp, jsonResKind(err)+" "+encStr(string(raw)))
			}
			if strings.Join(pp, " ; ") != strings.Join(parts, " ; ") {
				note = "SCHEDULE the scanner returns other documents for the same bytes under this delivery schedule than when they arrive in one piece"
			}
		}
		return "ok " + strings.Join(parts, " ; ") + " | " + note
	case "bread":
		s := c.sched()
		n := c.nat()
		if c.err != nil {
			return "bad-op " + c.err.Error()
		}
		br := mxj.VerifByteReader(&schedReader{s: s}).(io.ByteReader)
		var wbuf bytes.Buffer
		tr := mxj.VerifTeeReader(&schedReader{s: s}, &wbuf).(io.ByteReader)
		var parts []string
		teeOK := true
		var delivered []byte
		for i := 0; i < n; i++ {
			b, err := br.ReadByte()
			tb, terr := tr.ReadByte()
			if (err == nil) != (terr == nil) || (err == nil && b != tb) {
				teeOK = false
			}
			switch {
			case err == nil:
				parts = append(parts, "b"+encStr(string([]byte{b})))
				delivered = append(delivered, b)
			case err == io.EOF:
				parts = append(parts, "eof")
			default:
				parts = append(parts, "err")
			}
		}
		note := ""
		if !teeOK {
			note = "teeReader and byteReader deliver different bytes"
		} else if !bytes.Equal(wbuf.Bytes(), delivered) {
			note = "teeReader wrote other bytes than it delivered"
		}
		return "ok " + strings.Join(parts, " ") + " | " + note
	case "jbulk":
		// jbulk cont budget bytes : HandleJsonReader (and the Raw form) with an error handler that
		// answers `cont` and a map handler that returns false on its budget-th call (0 = never),
		// beside Mxj.Files.handleJson
		cont := c.boolean()
		budget := c.nat()
		data := c.str()
		if c.err != nil {
			return "bad-op " + c.err.Error()
		}
		mxj.JsonUseNumber = true
		run := func(raw bool) string {
			var seen []interface{}
			nerr := 0
			h := func(m mxj.Map) bool {
				seen = append(seen, map[string]interface{}(m))
				return budget == 0 || len(seen) < budget
			}
			var herr error
			if raw {
				herr = mxj.HandleJsonReaderRaw(strings.NewReader(data), func(m mxj.Map, _ []byte) bool { return h(m) }, func(error, []byte) bool { nerr++; return cont })
			} else {
				herr = mxj.HandleJsonReader(strings.NewReader(data), h, func(error) bool { nerr++; return cont })
			}
			end := "done"
			if herr != nil {
				end = "failed"
			}
			if seen == nil {
				seen = []interface{}{}
			}
			return fmt.Sprintf("ok %s errs=%d %s", enc(seen), nerr, end)
		}
		a, b := run(false), run(true)
		note := ""
		if a != b {
			note = "BULK HandleJsonReaderRaw behaves differently from HandleJsonReader: " + clip(b, 150) + " vs " + clip(a, 150)
		}
		return a + " | " + note
	case "implonly":
		if c.pos < len(c.toks) && c.toks[c.pos] == "bulkerr" {
			return c13BulkErr(c)
		}
		return c13Stream(c)
	}
	return "bad-op"
}

// implonly bulkerr kind raw cont pos docs sched
// A stream of well-formed documents with ONE malformed document (an element closed by another name /
// an object with a missing value) at position pos.  The error handler is a handler too: called once,
// with the malformed document (Raw form); when it returns false the bulk function stops there and
// returns the error, when it returns true reading goes on with the next document.  The map handler
// sees exactly the well-formed documents before (stop) or around (continue) the bad one, in order.
func c13BulkErr(c *cur) string {
	c.pos++
	kind := c.toks[c.pos]
	c.pos++
	raw := c.boolean()
	cont := c.boolean()
	pos := c.nat()
	docs := c.strList()
	s := c.sched()
	if c.err != nil {
		return "bad-op " + c.err.Error()
	}
	if pos > len(docs) {
		pos = len(docs)
	}
	bad := "<zbad>x</zworse>"
	if kind == "json" {
		bad = `{"zbad":}`
	}
	var want []string
	for _, d := range docs {
		var m map[string]interface{}
		var err error
		if kind == "xml" {
			m, err = mxj.NewMapXml([]byte(d))
		} else {
			m, err = mxj.NewMapJson([]byte(d))
		}
		if err != nil {
			return "bad-gen direct decoding failed: " + oneLine(err.Error())
		}
		want = append(want, enc(m))
	}
	_ = s
	var notes []string
	for pass := 0; pass < 2 && len(notes) == 0; pass++ {
		stream := strings.Join(docs[:pos], " ") + " " + bad + "\n" + strings.Join(docs[pos:], "")
		var rdr io.Reader = strings.NewReader(stream)
		if pass == 1 {
			rdr = &chunkReader{data: []byte(stream), sizes: []int{1, 3, 2, 7, 1, 64}}
		}
		var seen, errRaw []string
		nerr := 0
		h := func(m mxj.Map) bool { seen = append(seen, enc(map[string]interface{}(m))); return true }
		var herr error
		switch {
		case kind == "xml" && raw:
			herr = mxj.HandleXmlReaderRaw(rdr, func(m mxj.Map, _ []byte) bool { return h(m) }, func(_ error, rb []byte) bool { nerr++; errRaw = append(errRaw, string(rb)); return cont })
		case kind == "xml":
			herr = mxj.HandleXmlReader(rdr, h, func(error) bool { nerr++; return cont })
		case raw:
			herr = mxj.HandleJsonReaderRaw(rdr, func(m mxj.Map, _ []byte) bool { return h(m) }, func(_ error, rb []byte) bool { nerr++; errRaw = append(errRaw, string(rb)); return cont })
		default:
			herr = mxj.HandleJsonReader(rdr, h, func(error) bool { nerr++; return cont })
		}
		exp := want
		if !cont {
			exp = want[:pos]
		}
		switch {
		case nerr != 1:
			notes = append(notes, fmt.Sprintf("BULKERR the error handler was called %d times for one malformed document", nerr))
		case cont && herr != nil:
			notes = append(notes, "BULKERR the error handler asked to continue but the bulk function returned an error")
		case !cont && herr == nil:
			notes = append(notes, "BULKERR the error handler returned false but the bulk function reported success")
		case strings.Join(seen, "\x00") != strings.Join(exp, "\x00"):
			notes = append(notes, fmt.Sprintf("BULKERR the map handler saw %d documents, expected %d (malformed document at %d, continue=%v)", len(seen), len(exp), pos, cont))
		case raw && (len(errRaw) != 1 || !strings.Contains(errRaw[0], bad)):
			notes = append(notes, "BULKERR the raw bytes handed to the error handler do not contain the malformed document")
		}
	}
	return "ok | " + strings.Join(notes, "; ")
}

// implonly stream kind raw docs seps sched stopAfter
func c13Stream(c *cur) string {
	c.pos++ // "stream"
	kind := c.toks[c.pos]
	c.pos++
	raw := c.boolean()
	docs := c.strList()
	seps := c.strList()
	s := c.sched()
	stopAfter := c.nat()
	if c.err != nil {
		return "bad-op " + c.err.Error()
	}
	stream := ""
	for i, d := range docs {
		stream += seps[i] + d
	}
	stream += seps[len(docs)]
	if kind == "json" && len(c.toks)%2 == 0 {
		// the number mode is an option of every JSON reader form alike
		mxj.JsonUseNumber = true
	}
	// expected Maps: each document decoded on its own
	var want []string
	for _, d := range docs {
		var m map[string]interface{}
		var err error
		switch kind {
		case "xml":
			m, err = mxj.NewMapXml([]byte(d))
		case "seq":
			var ms mxj.MapSeq
			ms, err = mxj.NewMapXmlSeq([]byte(d))
			m = ms
		default:
			m, err = mxj.NewMapJson([]byte(d))
		}
		if err != nil {
			return "bad-gen direct decoding failed: " + oneLine(err.Error())
		}
		want = append(want, enc(m))
	}
	notes := []string{}
	var got, raws []string
	var rawKept [][]byte // the slices as returned, looked at again after the whole stream was read
	sawEOF := false
	readLoop := func(rdr io.Reader, label string) {
		got, raws, rawKept, sawEOF = nil, nil, nil, false
		for i := 0; i < len(docs)+3; i++ {
			var m map[string]interface{}
			var rb []byte
			var err error
			switch {
			case kind == "xml" && !raw:
				m, err = mxj.NewMapXmlReader(rdr)
			case kind == "xml":
				m, rb, err = mxj.NewMapXmlReaderRaw(rdr)
			case kind == "seq" && !raw:
				var ms mxj.MapSeq
				ms, err = mxj.NewMapXmlSeqReader(rdr)
				m = ms
			case kind == "seq":
				var ms mxj.MapSeq
				ms, rb, err = mxj.NewMapXmlSeqReaderRaw(rdr)
				m = ms
			case !raw:
				m, err = mxj.NewMapJsonReader(rdr)
			default:
				m, rb, err = mxj.NewMapJsonReaderRaw(rdr)
			}
			if err == io.EOF {
				sawEOF = true
				if len(m) > 0 {
					notes = append(notes, label+"a Map was returned together with io.EOF")
				}
				break
			}
			if err != nil {
				notes = append(notes, fmt.Sprintf("%sdocument %d: unexpected error %s", label, i, oneLine(err.Error())))
				break
			}
			got = append(got, enc(m))
			raws = append(raws, string(rb))
			rawKept = append(rawKept, rb)
		}
		for i, rb := range rawKept {
			if string(rb) != raws[i] {
				notes = append(notes, fmt.Sprintf("%sRAWKEPT Raw value %d changed while later documents were read", label, i))
				break
			}
		}
	}
	// a reader that hands over several bytes per Read and has no ReadByte method (a socket, a
	// response body): nothing beyond the current document may be consumed
	if !hasFail(s) {
		readLoop(&chunkReader{data: []byte(stream), sizes: []int{7, 1, 64, 3, 1000, 2, 16}}, "CHUNKED ")
		if len(notes) == 0 && (!sawEOF || strings.Join(got, "\x00") != strings.Join(want, "\x00")) {
			notes = append(notes, fmt.Sprintf("CHUNKED reading through a reader that delivers several bytes per Read: got %d documents (EOF seen: %v), want %d", len(got), sawEOF, len(want)))
		}
	}
	if len(notes) == 0 && !hasFail(s) && len(c.toks)%3 == 0 {
		// an *os.File that cannot seek: everything is in the pipe before the first read
		if pr, pw, perr := os.Pipe(); perr == nil {
			go func() { pw.Write([]byte(stream)); pw.Close() }()
			readLoop(pr, "PIPE ")
			pr.Close()
			if len(notes) == 0 && (!sawEOF || strings.Join(got, "\x00") != strings.Join(want, "\x00")) {
				notes = append(notes, fmt.Sprintf("PIPE reading from an os.Pipe: got %d documents (EOF seen: %v), want %d", len(got), sawEOF, len(want)))
			}
		}
	}
	if len(notes) == 0 {
		readLoop(&schedReader{s: s}, "")
	}
	if len(notes) == 0 {
		if !sawEOF {
			notes = append(notes, "no io.EOF after the last document")
		}
		if strings.Join(got, "\x00") != strings.Join(want, "\x00") {
			notes = append(notes, fmt.Sprintf("Maps differ from decoding each document directly: got %d want %d documents", len(got), len(want)))
		}
	}
	if raw && len(notes) == 0 {
		all := strings.Join(raws, "")
		if !strings.HasPrefix(stream, all) {
			n := "the Raw values are not a prefix of the stream"
			if kind == "json" {
				n = "JSONRAW " + n
			}
			notes = append(notes, n)
		}
		for i, rb := range raws {
			if i < len(docs) && !strings.Contains(rb, docs[i]) {
				if kind == "json" {
					if !strings.Contains(stripJSONWs(rb), stripJSONWs(docs[i])) {
						notes = append(notes, fmt.Sprintf("Raw value %d does not contain its document", i))
					}
				} else {
					notes = append(notes, fmt.Sprintf("Raw value %d does not contain its document", i))
				}
			}
		}
	}
	// the file writers and readers inherit this: the Maps written to a path that already holds a longer
	// file are read back as exactly that many Maps (nothing of the old content is left behind)
	if len(notes) == 0 && kind != "seq" && !raw && hashStr(stream)%4 == 0 {
		f := filepath.Join(scratch(), "c13file")
		os.WriteFile(f, []byte(strings.Repeat("<stale>old</stale>\n{\"stale\":1}\n", 40+len(stream)/8)), 0o644)
		var ms mxj.Maps
		for _, d := range docs {
			var m mxj.Map
			if kind == "xml" {
				m, _ = mxj.NewMapXml([]byte(d))
			} else {
				m, _ = mxj.NewMapJson([]byte(d))
			}
			ms = append(ms, m)
		}
		var werr, rerr error
		var back mxj.Maps
		if kind == "xml" {
			mxj.XMLEscapeChars(true)
			werr = ms.XmlFile(f)
			back, rerr = mxj.NewMapsFromXmlFile(f)
			mxj.XMLEscapeChars(false)
		} else {
			werr = ms.JsonFile(f)
			back, rerr = mxj.NewMapsFromJsonFile(f)
		}
		os.Remove(f)
		if werr == nil && (rerr != nil || len(back) != len(ms)) {
			notes = append(notes, fmt.Sprintf("FILE %d Maps written over an existing longer file are read back as %d Maps (%v)", len(ms), len(back), rerr))
		}
	}
	// bulk handler: once per document, in order, stops when the handler returns false
	if len(notes) == 0 {
		var seen []string
		h := func(m mxj.Map) bool {
			seen = append(seen, enc(map[string]interface{}(m)))
			return stopAfter == 0 || len(seen) < stopAfter
		}
		eh := func(error) bool { return false }
		hr := &schedReader{s: s}
		var herr error
		// Raw forms of the bulk handlers: the raw slices are kept as handed over and examined
		// after the whole stream has been processed (the documentation suggests handing them to
		// a goroutine)
		var hraw [][]byte
		var hrawThen []string
		hRaw := func(m mxj.Map, rb []byte) bool {
			hraw = append(hraw, rb)
			hrawThen = append(hrawThen, string(rb))
			return h(m)
		}
		ehRaw := func(error, []byte) bool { return false }
		switch {
		case kind == "xml" && raw:
			herr = mxj.HandleXmlReaderRaw(hr, hRaw, ehRaw)
		case kind == "xml":
			herr = mxj.HandleXmlReader(hr, h, eh)
		case kind == "seq":
			// there is no bulk handler for the sequence decoder
			return "ok | " + strings.Join(notes, "; ")
		case raw:
			herr = mxj.HandleJsonReaderRaw(hr, hRaw, ehRaw)
		default:
			herr = mxj.HandleJsonReader(hr, h, eh)
		}
		for i, rb := range hraw {
			if string(rb) != hrawThen[i] {
				notes = append(notes, fmt.Sprintf("RAWKEPT the Raw value handed to the map handler for document %d changed afterwards", i))
				break
			}
			if i < len(docs) && !strings.Contains(stripJSONWs(hrawThen[i]), stripJSONWs(docs[i])) {
				notes = append(notes, fmt.Sprintf("RAWKEPT the Raw value handed to the map handler for document %d does not contain the document", i))
				break
			}
		}
		exp := want
		if stopAfter > 0 && stopAfter < len(want) {
			exp = want[:stopAfter]
		}
		if herr != nil {
			notes = append(notes, "bulk handler returned an error: "+oneLine(herr.Error()))
		} else if strings.Join(seen, "\x00") != strings.Join(exp, "\x00") {
			n := fmt.Sprintf("bulk handler saw %d documents, expected %d (stopAfter=%d)", len(seen), len(exp), stopAfter)
			if kind == "json" && containsEmptyObject(docs) {
				n = "EMPTYOBJ " + n
			}
			notes = append(notes, n)
		}
	}
	return "ok | " + strings.Join(notes, "; ")
}

// chunkReader delivers the stream in chunks of cycling sizes; it implements io.Reader only.
type chunkReader struct {
	data  []byte
	sizes []int
	n     int
}

func (c *chunkReader) Read(p []byte) (int, error) {
	if len(c.data) == 0 {
		return 0, io.EOF
	}
	k := c.sizes[c.n%len(c.sizes)]
	c.n++
	if k > len(p) {
		k = len(p)
	}
	if k > len(c.data) {
		k = len(c.data)
	}
	copy(p, c.data[:k])
	c.data = c.data[k:]
	return k, nil
}

func hasFail(s []rd) bool {
	for _, x := range s {
		if x.kind == 'F' {
			return true
		}
	}
	return false
}

func containsEmptyObject(docs []string) bool {
	for _, d := range docs {
		if stripJSONWs(d) == "{}" {
			return true
		}
	}
	return false
}

// stripJSONWs removes white space outside string literals.
func stripJSONWs(s string) string {
	var sb strings.Builder
	inQ, esc := false, false
	for i := 0; i < len(s); i++ {
		ch := s[i]
		if inQ {
			sb.WriteByte(ch)
			if esc {
				esc = false
			} else if ch == '\\' {
				esc = true
			} else if ch == '"' {
				inQ = false
			}
			continue
		}
		if ch == ' ' || ch == '\n' || ch == '\r' || ch == '\t' {
			continue
		}
		if ch == '"' {
			inQ = true
		}
		sb.WriteByte(ch)
	}
	return sb.String()
}

func c13Describe(op string) string {
	c, name := newCur(op)
	switch name {
	case "getjson", "bread":
		s := c.sched()
		var data []byte
		kinds := map[byte]int{}
		for _, x := range s {
			kinds[x.kind]++
			if x.kind == '1' || x.kind == 'E' {
				data = append(data, x.b)
			}
		}
		return fmt.Sprintf("%s x%d data=%q schedule: %d reads (%d zero-length, %d byte+EOF, %d (0,EOF), %d errors)", name, c.nat(), data, len(s), kinds['0'], kinds['E'], kinds['Z'], kinds['F'])
	case "jbulk":
		cont, budget := c.boolean(), c.nat()
		return fmt.Sprintf("HandleJsonReader/Raw errorHandlerContinues=%v mapHandlerStopsAtCall=%d (0 = never) stream=%q", cont, budget, c.str())
	case "implonly":
		if c.toks[c.pos] == "bulkerr" {
			c.pos++
			kind := c.toks[c.pos]
			c.pos++
			raw, cont, pos := c.boolean(), c.boolean(), c.nat()
			return fmt.Sprintf("bulk handler kind=%s raw=%v errorHandlerContinues=%v malformed document at position %d among docs=%q", kind, raw, cont, pos, c.strList())
		}
		c.pos++
		kind := c.toks[c.pos]
		c.pos++
		raw := c.boolean()
		docs := c.strList()
		seps := c.strList()
		s := c.sched()
		kinds := map[byte]int{}
		for _, x := range s {
			kinds[x.kind]++
		}
		return fmt.Sprintf("stream kind=%s raw=%v docs=%q separators=%q schedule: %d reads (%d zero-length, %d byte+EOF, %d (0,EOF)) stopAfter=%d", kind, raw, docs, seps, len(s), kinds['0'], kinds['E'], kinds['Z'], c.nat())
	}
	return op
}

func c13Judge(op, impl, model string) Verdict {
	_, name := newCur(op)
	v := Verdict{Tags: []string{name}}
	if strings.HasPrefix(impl, "panic") {
		v.OracleFail = name + " panicked: " + impl
		v.Sig = name + ":panic"
		return v
	}
	if strings.HasPrefix(impl, "bad-gen") {
		v.Skipped, v.CorrOK = true, true
		return v
	}
	ip := splitModel(impl)
	switch name {
	case "implonly":
		v.CorrOK = true
		v.Nontrivial = true
		c, _ := newCur(op)
		if c.toks[c.pos] == "bulkerr" {
			v.Tags = append(v.Tags, "bulkerr")
		}
		c.pos++
		v.Tags = append(v.Tags, "stream:"+c.toks[c.pos])
	default:
		if strings.HasPrefix(model, "skip-") {
			v.Skipped, v.CorrOK = true, true
		} else {
			v.CorrOK = ip[0] == model
		}
		v.Nontrivial = strings.Contains(ip[0], "doc ") || strings.Contains(ip[0], " bs") || strings.Contains(ip[0], " errs=")
		if strings.Contains(ip[0], "NILRAW") {
			v.OracleFail = "getJson returned a nil buffer (the Raw reader dereferences it)"
			v.Sig = "getjson:nilraw"
		}
	}
	if len(ip) > 1 && ip[1] != "" && v.OracleFail == "" {
		v.OracleFail = ip[1]
		v.Sig = name + ":" + strings.Join(strings.Fields(ip[1])[:3], "-")
		if strings.HasPrefix(ip[1], "JSONRAW") && !strings.Contains(ip[1], "; ") {
			v.Sig = "stream:json-raw-not-prefix"
		}
		if strings.HasPrefix(ip[1], "EMPTYOBJ") {
			v.Sig = "stream:json-empty-object-skipped"
		}
	}
	return v
}

var jsonStreamStrs = []string{"x", "a{b", "}", "{", "\\\"", "\\\\", "q\\\"{", "}\\\\", " ", "a b", "[", ":", ","}

func (r *Rng) jsonStreamDoc() string {
	var sb strings.Builder
	ws := func() string { return r.Pick([]string{"", "", " ", "\n", "\t"}) }
	var obj func(depth int)
	str := func() {
		sb.WriteString("\"")
		for i := r.Intn(3); i > 0; i-- {
			sb.WriteString(r.Pick(jsonStreamStrs))
		}
		if r.P(15) {
			sb.WriteString("\\\\") // trailing escaped backslash
		}
		sb.WriteString("\"")
	}
	obj = func(depth int) {
		sb.WriteString("{" + ws())
		n := r.Intn(3)
		if depth == 0 && n == 0 && r.P(90) {
			n = 1
		}
		for i := 0; i < n; i++ {
			if i > 0 {
				sb.WriteString("," + ws())
			}
			sb.WriteString("\"" + r.Pick(plainKeys) + fmt.Sprint(i) + "\"" + ws() + ":" + ws())
			switch {
			case depth < 2 && r.P(30):
				obj(depth + 1)
			case r.P(20):
				sb.WriteString(r.Pick([]string{"1", "true", "null", "[1, 2]", "[{\"z\":\"}\"}]", "9007199254740993", "2.50", "-0", "1e3"}))
			default:
				str()
			}
			sb.WriteString(ws())
		}
		sb.WriteString("}")
	}
	obj(0)
	return sb.String()
}

func c13Gen(r *Rng, n int) []string {
	var ops []string
	for len(ops) < n {
		switch r.Intn(4) {
		case 0: // scanner alone, incl. malformed streams
			nd := 1 + r.Intn(3)
			data := ""
			for i := 0; i < nd; i++ {
				data += r.Pick([]string{"", " ", "\n", "junk ", "\t\r\n"}) + r.jsonStreamDoc()
			}
			switch r.Intn(6) {
			case 0:
				data = data[:r.Intn(len(data)+1)]
			case 1:
				data += r.Pick([]string{"}", " } {\"a\":1}", "{", "\"", "{\"a\":\"x"})
			}
			zp := r.Pick2(0, 20)
			if r.P(8) {
				// a long document with an empty read before most of its bytes: hundreds of (0, nil)
				// reads in total, never many in a row
				data = `{"long":"` + strings.Repeat("ab", 60+r.Intn(60)) + `","n":{"m":[1,2,3]}}` + data
				nd++
				for len(data) < 260 {
					data += " " + r.jsonStreamDoc()
					nd++
				}
				zp = 55 + r.Intn(40)
			}
			s := r.mkSched(data, zp, r.P(40))
			if r.P(5) && len(s) > 0 {
				s[r.Intn(len(s))] = rd{'F', 0}
			}
			ops = append(ops, fmt.Sprintf("getjson %s %d", encSched(s), nd+2))
		case 1: // adaptors
			data := r.Pick([]string{"<a>x</a>", "ab", "", "{\"a\":1}", "xyz<>"})
			s := r.mkSched(data, r.Pick2(0, 30), r.P(50))
			if r.P(10) && len(s) > 0 {
				s[r.Intn(len(s))] = rd{'F', 0}
			}
			ops = append(ops, fmt.Sprintf("bread %s %d", encSched(s), len(data)+3))
		case 2:
			if r.P(55) {
				// the JSON bulk handler beside its model: well-formed objects, objects the decoder
				// rejects, stray closers, an object left open at the end, junk between them
				nd := 1 + r.Intn(5)
				data := ""
				for i := 0; i < nd; i++ {
					data += r.Pick([]string{"", " ", "\n", "\t\r\n", "junk "})
					switch r.Intn(8) {
					case 0:
						data += r.Pick([]string{`{"zbad":}`, `{"a":tru}`, `{"a" 1}`, `{"a":1,}`, `{,}`, `{"a":{"b":}}`})
					case 1:
						data += r.Pick([]string{"}", "null", "[1,2]", `"s"`, "{}"})
					default:
						data += r.jsonStreamDoc()
					}
				}
				if r.P(12) {
					data += r.Pick([]string{`{"open":1`, `{"s":"unterminated`, "{"})
				}
				ops = append(ops, fmt.Sprintf("jbulk %d %d %s", b2i(r.Bool()), r.Pick2(0, r.Intn(nd+2)), encStr(data)))
				continue
			}
			fallthrough
		default: // whole streams
			kind := r.Pick([]string{"xml", "seq", "json"})
			nd := 1 + r.Intn(4)
			var docs, seps []string
			for i := 0; i < nd; i++ {
				seps = append(seps, r.Pick([]string{"", "\n", " ", "\n\n  ", "\t"}))
				if kind == "json" {
					docs = append(docs, r.jsonStreamDoc())
				} else {
					g := c01Gen0
					g.Comments, g.Namespaces, g.MaxDepth, g.MultiTextP = false, false, 2, 0
					g.SeqShape = kind == "seq"
					var sb strings.Builder
					r.render(r.xmlDoc(&g), &sb)
					docs = append(docs, sb.String())
				}
			}
			seps = append(seps, r.Pick([]string{"", "\n", "  "}))
			stream := ""
			for i, d := range docs {
				stream += seps[i] + d
			}
			stream += seps[nd]
			s := r.mkSched(stream, r.Pick2(0, 15), r.P(40))
			if kind != "seq" && r.P(12) {
				ops = append(ops, fmt.Sprintf("implonly bulkerr %s %d %d %d %s %s", kind, b2i(r.Bool()), b2i(r.Bool()), r.Intn(nd+1), encStrList(docs), encSched(s[:0])))
				continue
			}
			stop := 0
			if r.P(30) {
				stop = 1 + r.Intn(nd)
			}
			ops = append(ops, fmt.Sprintf("implonly stream %s %d %s %s %s %d", kind, b2i(r.P(40)), encStrList(docs), encStrList(seps), encSched(s), stop))
		}
	}
	return ops
}

// Pick2 returns a or b.
func (r *Rng) Pick2(a, b int) int {
	if r.Bool() {
		return a
	}
	return b
}

func init() {
	register(&Prop{
		ID:        "C13",
		Rule:      "concatenations of 1-4 XML / sequence-XML documents or JSON objects (string values with braces, quotes, backslashes, trailing escaped backslash; nested objects; arrays) with arbitrary separators, delivered under random legal schedules of one-byte reads: zero-length (0,nil) reads interspersed, last byte with or without io.EOF, explicit (0,EOF), injected read errors; reader, Raw and bulk-handler forms (with early stop); the getJson scanner and the two byte adaptors are also compared with the Lean model read by read; non-trivial = at least one document delivered; distinct = distinct op lines",
		Gen:       c13Gen,
		Exec:      c13Exec,
		Judge:     c13Judge,
		Describe:  c13Describe,
		QuickN:    3000*2,
		ThoroughN: 150000,
	})
}
