package main

// options.go - package options are process-global; every case restores the defaults
// through the real setters and (with the verif hook) verifies the restore.

import (
	"fmt"
	"reflect"

	mxj "github.com/clbanning/mxj/v2"
)

var defaultSnapshot map[string]string

func resetOptions() {
	mxj.SetGlobalKeyMapPrefix("#")
	mxj.IncludeTagSeqNum(false)
	mxj.CoerceKeysToLower(false)
	mxj.DisableTrimWhiteSpace(false)
	mxj.SetAttrPrefix("-")
	mxj.CoerceKeysToSnakeCase(false)
	mxj.CastValuesToInt(false)
	mxj.HandleXMPPStreamTag(false)
	mxj.DecodeSimpleValuesAsMap(false)
	mxj.CastNanInf(false)
	mxj.CastValuesToFloat(true)
	mxj.CastValuesToBool(true)
	mxj.SetCheckTagToSkipFunc(nil)
	mxj.XmlDefaultEmptyElemSyntax()
	mxj.XmlCheckIsValid(false)
	mxj.XMLEscapeCharsDecoder(false)
	mxj.XMLEscapeChars(false)
	mxj.SetFieldSeparator()
	mxj.LeafUseDotNotation(false)
	mxj.SetArraySize(0)
	mxj.JsonUseNumber = false
	mxj.CustomDecoder = nil
	mxj.XmlCharsetReader = nil
}

// initOptions records the fresh-process snapshot; checkDefaults verifies a restore.
func initOptions() {
	defaultSnapshot = mxj.VerifOptions()
}

func checkDefaults() error {
	now := mxj.VerifOptions()
	if !reflect.DeepEqual(now, defaultSnapshot) {
		return fmt.Errorf("options not restored: %v vs fresh %v", now, defaultSnapshot)
	}
	return nil
}
