#!/usr/bin/env python3
"""seedsweep.py [name-prefix ...] — run every seeded change under /verif/seeded against the quick check of
its own property (meta.json "property"; R-* seeds: the property of the fix they revert, from
known_findings.txt) and write seeded/RESULTS.md.  each seed is applied to a scratch worktree (VERIF_REPO), never to /repo."""
import json, os, re, subprocess, sys, glob
os.environ["VERIF_EVIDENCE_DIR"] = os.path.join(os.path.dirname(os.path.dirname(os.path.abspath(__file__))), ".build", "seed-evidence")
V = os.path.dirname(os.path.dirname(os.path.abspath(__file__)))
def sh(cmd):
    return subprocess.run(cmd, shell=True, capture_output=True, text=True)
WT = "/tmp/seedwt-%d" % os.getpid()
def wt_make(base="HEAD"):
    sh("git -C /repo worktree remove --force %s; rm -rf %s" % (WT, WT))
    return sh("git -C /repo worktree add -q --detach %s %s" % (WT, base)).returncode == 0
def wt_drop():
    import hashlib
    sh("git -C /repo worktree remove --force %s; rm -rf %s" % (WT, WT))
    h = hashlib.sha1(os.path.realpath(WT).encode()).hexdigest()[:10]
    for p in glob.glob(V + "/.build/*" + h + "*"):
        os.remove(p)
fixprop = {}
for l in open(V + "/known_findings.txt"):
    m = re.match(r"fixed: property=(C\d\d) (\w+)", l)
    if m:
        fixprop[m.group(2)[:7]] = m.group(1)
rows = []
pref = sys.argv[1:]
for d in sorted(glob.glob(V + "/seeded/*/")):
    name = os.path.basename(d.rstrip("/"))
    if pref and not any(name.startswith(p) for p in pref):
        continue
    patch = d + "patch.diff"
    if not os.path.exists(patch):
        continue
    meta = {}
    try:
        meta = json.load(open(d + "meta.json"))
    except Exception:
        pass
    pid = meta.get("property") or fixprop.get(name[2:9])
    if isinstance(pid, list):
        pid = pid[0]
    if not pid:
        rows.append((name, "?", "NO-PROPERTY", "")); continue
    if not wt_make(meta.get("base") or "HEAD") or sh("git -C %s apply --whitespace=nowarn %s" % (WT, patch)).returncode != 0:
        wt_drop(); rows.append((name, pid, "PATCH-DOES-NOT-APPLY", "")); continue
    try:
        c = sh("cd %s && VERIF_REPO=%s ./check %s quick" % (V, WT, pid))
        vl = [l for l in c.stdout.split("\n") if l.startswith("VIOLATION")]
        if c.returncode == 1 and vl:
            kind = "detected (correspondence/proof obligation only)" if "no-failing-input-found" in vl[0] else "detected with replay"
            why = ""
            m = re.search(r"replay=(\S+)", vl[0])
            if m and os.path.exists(m.group(1)) and m.group(1).endswith(".case"):
                why = open(m.group(1)).readline().strip().lstrip("/ ")[:140]
            rows.append((name, pid, kind, why))
        else:
            rows.append((name, pid, "MISSED", c.stdout.strip().split("\n")[-1][:120]))
    finally:
        wt_drop()
    print(rows[-1], flush=True)
# merge with the rows of seeds that were not run this time
if pref and os.path.exists(V + "/seeded/RESULTS.md"):
    have = {r[0] for r in rows}
    for l in open(V + "/seeded/RESULTS.md"):
        cells = [c.strip() for c in l.strip().strip("|").split(" | ")]
        if len(cells) == 4 and cells[0] not in ("seed", "---") and not cells[0].startswith("-") and cells[0] not in have:
            rows.append(tuple(cells))
    rows.sort()
with open(V + "/seeded/RESULTS.md", "w") as f:
    f.write("# Seeded changes versus the quick checks (written by tools/seedsweep.py)\n\n| seed | property | result | first line of the replay |\n|---|---|---|---|\n")
    for r in rows:
        f.write("| %s | %s | %s | %s |\n" % tuple(x.replace("|", "\\|") for x in r))
print("missed:", [r[0] for r in rows if r[2] == "MISSED"])
