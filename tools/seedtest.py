#!/usr/bin/env python3
"""seedtest.py <patch.diff> <Cxx> [Cyy ...]  — apply a seeded change to /repo, run the quick checks,
undo the change, print one line per property: DETECTED (with the VIOLATION line) or MISSED."""
import subprocess, sys, os
os.environ["VERIF_EVIDENCE_DIR"] = "/verif/.build/seed-evidence"
patch = os.path.abspath(sys.argv[1])
pids = sys.argv[2:]
def sh(cmd, **kw):
    return subprocess.run(cmd, shell=True, capture_output=True, text=True, **kw)
r = sh("git -C /repo status --porcelain")
if r.stdout.strip():
    print("REPO-NOT-CLEAN", r.stdout); sys.exit(2)
r = sh("git -C /repo apply --whitespace=nowarn %s" % patch)
if r.returncode != 0:
    print("PATCH-DOES-NOT-APPLY", r.stderr.strip()[:300]); sys.exit(2)
try:
    b = sh("cd /repo && GOFLAGS=-mod=mod GOPROXY=off GOSUMDB=off GOTOOLCHAIN=local go build . ./j2x ./x2j ./x2j-wrapper && go test -vet=off -count=1 . ./j2x ./x2j-wrapper 2>&1 | tail -3")
    suite = "suite-ok" if b.returncode == 0 and "FAIL" not in b.stdout else "SUITE-FAILS"
    for pid in pids:
        env = dict(os.environ)
        r = sh("cd /verif && ./check %s quick" % pid, env=env)
        lines = [l for l in r.stdout.split("\n") if l.startswith("VIOLATION")]
        if r.returncode == 1 and lines:
            print("%s DETECTED %s | %s" % (pid, suite, lines[0][:200]))
        else:
            print("%s MISSED %s rc=%d | %s" % (pid, suite, r.returncode, r.stdout.strip().split("\n")[-1][:200]))
finally:
    sh("git -C /repo checkout -- . && git -C /repo clean -fdq")
