#!/usr/bin/env python3
"""seedtest.py <patch.diff> <Cxx> [Cyy ...]  — apply a seeded change to a scratch worktree of /repo
(never to /repo itself), build, run the unedited suite and the quick checks there (VERIF_REPO), remove the
worktree, print one line per property: DETECTED (with the VIOLATION line) or MISSED."""
import subprocess, sys, os, hashlib
os.environ["VERIF_EVIDENCE_DIR"] = "/verif/.build/seed-evidence"
patch = os.path.abspath(sys.argv[1])
pids = sys.argv[2:]
tier = os.environ.get("SEED_TIER", "quick")
def sh(cmd, **kw):
    return subprocess.run(cmd, shell=True, capture_output=True, text=True, **kw)
wt = "/tmp/st-" + hashlib.sha1(patch.encode()).hexdigest()[:10]
sh("git -C /repo worktree remove --force %s; rm -rf %s" % (wt, wt))
r = sh("git -C /repo worktree add -q --detach %s HEAD" % wt)
if r.returncode != 0:
    print("WORKTREE-FAILED", r.stderr.strip()[:300]); sys.exit(2)
try:
    r = sh("git -C %s apply --whitespace=nowarn %s" % (wt, patch))
    if r.returncode != 0:
        print("PATCH-DOES-NOT-APPLY", r.stderr.strip()[:300]); sys.exit(2)
    b = sh("cd %s && GOFLAGS=-mod=mod GOPROXY=off GOSUMDB=off GOTOOLCHAIN=local go build . ./j2x ./x2j ./x2j-wrapper && go test -vet=off -count=1 . ./j2x ./x2j ./x2j-wrapper 2>&1 | tail -4" % wt)
    suite = "suite-ok" if b.returncode == 0 and "FAIL" not in b.stdout else "SUITE-FAILS"
    for pid in pids:
        env = dict(os.environ, VERIF_REPO=wt)
        r = sh("cd /verif && ./check %s %s" % (pid, tier), env=env)
        lines = [l for l in r.stdout.split("\n") if l.startswith("VIOLATION")]
        if r.returncode == 1 and lines:
            print("%s DETECTED %s | %s" % (pid, suite, lines[0][:200]))
        else:
            print("%s MISSED %s rc=%d | %s" % (pid, suite, r.returncode, r.stdout.strip().split("\n")[-1][:200]))
finally:
    sh("git -C /repo worktree remove --force %s; rm -rf %s" % (wt, wt))
    import glob
    h = hashlib.sha1(os.path.realpath(wt).encode()).hexdigest()[:10]
    for f in glob.glob("/verif/.build/*%s*" % h):
        os.remove(f)
