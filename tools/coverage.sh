#!/bin/bash
# coverage.sh — which statements of /repo do the quick checks execute?  (measurement, not a check)
# writes .build/cover/all.txt (merged profile) and prints the functions below 100 %
export GOFLAGS=-mod=mod GOPROXY=off GOSUMDB=off GOTOOLCHAIN=local CGO_ENABLED=0
V=$(cd "$(dirname "$0")/.." && pwd)
mkdir -p $V/.build/cover; cd $V/harness
cp /repo/go.sum go.sum 2>/dev/null
props=${@:-C01 C02 C03 C04 C05 C06 C07 C08 C09 C10 C11 C12 C13 C14 C15 C16 C17 C18 C19 C20}
go test -c -tags 'verif verifcover' -cover -coverpkg='github.com/clbanning/mxj/v2/...' -o $V/.build/cover/cover.test . || exit 2
for p in $props; do echo $p; done | xargs -P 6 -I{} sh -c "VERIF_COVER_PROP={} VERIF_COVER_DRIVER=$V/lean/.lake/build/bin/mxjdriver $V/.build/cover/cover.test -test.run TestCover -test.coverprofile=$V/.build/cover/{}.txt >/dev/null 2>&1"
python3 - $V/.build/cover $props <<'PY'
import sys,glob
d=sys.argv[1]; cov={}
for p in sys.argv[2:]:
    try: lines=open('%s/%s.txt'%(d,p)).read().split('\n')[1:]
    except Exception: continue
    for l in lines:
        if not l.strip(): continue
        k,n,c=l.rsplit(' ',2)
        cov[k]=(int(n),max(cov.get(k,(0,0))[1],int(c)))
with open(d+'/all.txt','w') as f:
    f.write('mode: set\n')
    for k,(n,c) in sorted(cov.items()): f.write('%s %d %d\n'%(k,n,1 if c else 0))
PY
cd /repo && go tool cover -func=$V/.build/cover/all.txt | awk '$3+0 < 100' | sort -k3 -n
