#!/usr/bin/env python3
"""mutate.py <count> [seed] [file-filter] — small syntactic mutants of /repo's non-test sources (operator flips,
boolean flips, off-by-one on small integer literals, removed negations), one at a time: those that still
build and pass the unedited suite are run against the quick checks of the properties anchored in the
mutated file; results go to seeded/MUTANTS.md (appended).  A surviving mutant is either equivalent (no
behavioural change a property could see) or a gap; survivors are listed for triage.  Works on a scratch worktree (VERIF_REPO)."""
import json, os, random, re, subprocess, sys, concurrent.futures as cf
os.environ["VERIF_EVIDENCE_DIR"] = "/verif/.build/seed-evidence"
V = os.path.dirname(os.path.dirname(os.path.abspath(__file__)))
R = "/tmp/mutwt-%d" % os.getpid()   # a scratch worktree of /repo: /repo itself is never touched
ENV = dict(os.environ, GOFLAGS="-mod=mod", GOPROXY="off", GOSUMDB="off", GOTOOLCHAIN="local")
def sh(cmd, cwd=None, timeout=900):
    try:
        return subprocess.run(cmd, shell=True, capture_output=True, text=True, cwd=cwd, env=ENV, timeout=timeout)
    except subprocess.TimeoutExpired:
        class T: returncode = 124; stdout = ""; stderr = "timeout"
        return T()
subprocess.run("git -C /repo worktree remove --force %s; rm -rf %s; git -C /repo worktree add -q --detach %s HEAD" % (R, R, R), shell=True, capture_output=True)
ENV["VERIF_REPO"] = R
ENV["VERIF_EVIDENCE_DIR"] = os.path.join(V, ".build", "seed-evidence")
count = int(sys.argv[1]); seed = int(sys.argv[2]) if len(sys.argv) > 2 else 1
filt = sys.argv[3] if len(sys.argv) > 3 else ""
rnd = random.Random(seed)
file2props = {}
for l in open(V + "/properties.jsonl"):
    p = json.loads(l)
    for f in p["anchors"]["files"]:
        file2props.setdefault(f, []).append(p["id"])
for f in ("x2j-wrapper/x2j.go", "x2j-wrapper/x2j_findPath.go", "x2j-wrapper/x2j_valuesFrom.go", "x2j-wrapper/x2j_valuesAt.go",
          "x2j-wrapper/reader2j.go", "x2j-wrapper/x2j_bulk.go", "x2j-wrapper/x2m_bulk.go", "j2x/j2x.go", "x2j/x2j.go"):
    file2props.setdefault(f, []).append("C20")
RULES = [(r" == ", " != "), (r" != ", " == "), (r" < ", " <= "), (r" <= ", " < "), (r" > ", " >= "), (r" >= ", " > "),
         (r" && ", " || "), (r" \|\| ", " && "), (r"\btrue\b", "false"), (r"\bfalse\b", "true"),
         (r"\+ 1\b", "- 1"), (r"- 1\b", "+ 1"), (r"\b0\b", "1"), (r"\b1\b", "0"), (r"if !", "if "), (r"\[1:\]", "[0:]"),
         (r"\+\+", "--"), (r"\bcontinue\b", "break"), (r"\bbreak\b", "continue")]
cands = []
for f, props in sorted(file2props.items()):
    path = os.path.join(R, f)
    if not os.path.exists(path) or f.endswith("_test.go") or (filt and filt not in f):
        continue
    lines = open(path).read().split("\n")
    incomment = False
    for i, ln in enumerate(lines):
        s = ln.strip()
        if s.startswith("/*"): incomment = True
        if incomment:
            if "*/" in s: incomment = False
            continue
        if not s or s.startswith("//") or s.startswith("import") or s.startswith("package"):
            continue
        code = ln.split("//")[0]
        if '"' in code and code.count('"') % 2 == 0 and len(re.sub(r'"[^"]*"', '', code).strip()) < 6:
            continue
        for ri, (pat, rep) in enumerate(RULES):
            for m in re.finditer(pat, code):
                # not inside a string literal
                if code[:m.start()].count('"') % 2 == 1 or code[:m.start()].count("`") % 2 == 1:
                    continue
                cands.append((f, i, m.start(), m.end(), rep, ri))
rnd.shuffle(cands)
print(len(cands), "candidate mutants;", count, "to try", flush=True)
def run_check(pid):
    c = sh("./check %s quick" % pid, cwd=V, timeout=2400)
    if c.returncode == 124 and c.stderr == "timeout":
        return pid, "VIOLATION property=%s TIMEOUT no-failing-input-found" % pid
    vl = [l for l in c.stdout.split("\n") if l.startswith("VIOLATION")]
    return pid, (vl[0] if vl else "")
rows = []
tried = 0
for (f, i, a, b, rep, ri) in cands:
    if tried >= count:
        break
    path = os.path.join(R, f)
    orig = open(path).read()
    lines = orig.split("\n")
    old = lines[i]
    lines[i] = old[:a] + rep + old[b:]
    open(path, "w").write("\n".join(lines))
    try:
        if sh("go build . ./j2x ./x2j ./x2j-wrapper", cwd=R).returncode != 0:
            continue
        t = sh("go test -vet=off -count=1 . ./j2x ./x2j ./x2j-wrapper", cwd=R, timeout=300)
        if t.returncode != 0:
            continue  # the suite kills it: not a mutant of interest
        tried += 1
        props = file2props[f]
        killed = []
        with cf.ThreadPoolExecutor(max_workers=4) as ex:
            for pid, v in ex.map(run_check, props):
                if v:
                    killed.append(pid + ("*" if "no-failing-input-found" in v else ""))
        status = "killed by " + ",".join(killed) if killed else "SURVIVED"
        rows.append((f, i + 1, old.strip()[:90], (old[:a] + rep + old[b:]).strip()[:90], status))
        print(tried, f, i + 1, status, "|", old.strip()[:70], "=>", rep, flush=True)
    finally:
        open(path, "w").write(orig)
subprocess.run("git -C /repo worktree remove --force %s; rm -rf %s" % (R, R), shell=True, capture_output=True)
with open(V + "/seeded/MUTANTS.md", "a") as out:
    out.write("\n## run seed=%d count=%d filter=%r\n\n| file | line | original | mutant | result |\n|---|---|---|---|---|\n" % (seed, count, filt))
    for r in rows:
        out.write("| %s | %s | `%s` | `%s` | %s |\n" % tuple(str(x).replace("|", "\\|") for x in r))
print("survivors:", sum(1 for r in rows if r[4] == "SURVIVED"), "of", len(rows))
