#!/usr/bin/env python3
"""Regenerates /verif/MANIFEST.json from the table below (kept valid at all times)."""
import json, os, subprocess
V = os.path.dirname(os.path.dirname(os.path.abspath(__file__)))
props = [json.loads(l) for l in open(os.path.join(V, "properties.jsonl"))]

NOTE = ("Lean 4.33 kernel, axioms propext/Classical.choice/Quot.sound only (audited per theorem on every run); "
        "hand-written model tied to /repo's working tree by the in-process correspondence harness on every run "
        "(plus regenerated facts where stated); standard-library behaviour (strconv, encoding/xml tokenizer, "
        "encoding/json, fmt %v, sort) enters as parameters whose answers come from the real library")

# id -> (claim text, DESIGN section, technique)
claimed = {
 "C01": ("Lean theorems over the streaming-parser model: token-stream recursion = tree fold for every tree, option set and continuation; the fold equals the declarative conventions on the domain (one non-blank text run per element) up to map-entry order; model tied to xmlToMapParser by correspondence on generated documents under all option combinations and four entry points; conventions spec also evaluated directly against the implementation", "7 C01"),
 "C02": ("Lean theorems: compact encoder bytes = rendering of the encoder's tree (C02_marshal_eq_render), decoded Maps satisfy the `Decoded` invariant and are their own image, XML -> Map -> XML -> Map is a fixed point at tree level and - through the tokenizer law TokLaw, which is proved for an executable tokenizer model (Model/Tokenizer.lean: C02_tok_law, C02_tok_law_raw, hypothesis-free corollaries C02_tok_fixed_point_bytes / C02_tok_sym_fixed_point_bytes / C02_tok_escdec_fixed_point_bytes) that is itself compared token by token with encoding/xml on every compact encoder output and on generated and damaged documents (op xtok) - at byte level, for the default options (C02_fixed_point_tree/_bytes) and for EVERY symmetric option pair: any attribute prefix and text key, case/snake folding, simple-values-as-map, keep-spaces, float/bool cast in any combination (C02_sym_fixed_point_tree/_bytes under the stated library laws LowerLaw/FloatLaw/FloatTextLaw, with witnesses that the excluded options break it); decoder-side escaping, the indented encoder and well-formedness are covered by the round-trip correspondence and oracles (compact bytes vs model, re-decode equality, token streams of indented vs compact, option histories through the toggle forms); one known finding (keep-spaces + indent)", "7 C02"),
 "C03": ("Lean theorems: for every well-formed JSON-shaped value the encoder's tree decodes (by the documented conventions) to exactly the declared image: scalars as text, lists as repeated siblings in order, attribute and text entries, empties as empty elements (C03_tree_preserves, C03_encode_preserves, C03_anyXml_preserves), encoding succeeds on the domain; compact bytes of Map.Xml / AnyXml compared with the model byte for byte, an independent image oracle in Go on both compact and indented output; for the indented encoder: same tree, and its layout token stream decodes to the image when prefix/indent are in the trim set (C03_indent_tree_preserves), bytes of Map.XmlIndent compared with the indent model byte for byte (xenci)", "7 C03"),
 "C04": ("Lean theorems over the sequence-codec model (sorting by pairwise distinct sequence numbers inverts any permutation, decoder numbering, stream decoding = tree fold, tree-level round trip on the domain) + correspondence of decode and encode + token-stream round-trip oracle through Xml, XmlIndent and BeautifyXml; indented sequence encoder modelled byte-exactly (xseqi): fails/panics exactly when the compact one does, its bytes minus layout are the compact bytes for every input, decode -> XmlIndent -> decode reproduces the decoded value for blank prefix/indent (C04_indent_*)", "7 C04"),
 "C06": ("Lean theorems: string-literal round trip for both escaping modes and every string, safe encoding never contains < > &, value and Map level round trip through the modelled JSON grammar, NewMapJson characterised as a function of the first value alone (object, null, or an array returned as exactly {\"object\": array}; what follows the value is not looked at - the general tail lemma is partial, proved for encoder output); C06ExtIndent: the same round trip for Map.JsonIndent - the grammar skips the layout, so NewMapJson(JsonIndent(prefix, indent, safe)) is the normal form of the Map and equals the decoding of the compact output for every JSON-shaped Map, both encodings and every prefix/indent of JSON white space (C06_indent_roundtrip_exact, C06_indent_same_as_compact, value level C06_indent_value), the safe indented output has no raw < > & (C06_indent_safe_has_no_html), witness that a non-white-space prefix breaks it (C06_indent_ws_needed_witness); encoder bytes compared with the model and with encoding/json itself (same escaping), Map.JsonIndent(prefix, indent[, safe]) byte for byte with the model of json.Indent (op jenci: varied white-space prefixes/indents, empty containers, both encodings) and its bytes decoded by NewMapJson beside the model decoder, decoder compared with the model on generated and corrupted texts and with encoding/json's first value; one known finding (JSON null)", "7 C06"),
 "C13": ("Lean theorems over delivery schedules: the byte adaptors are transparent for every schedule, the getJson scanner depends only on the bytes (zero-length reads, last byte with EOF), its extent on a generative grammar of objects incl. strings ending in an escaped backslash, JSON documents come out in order; XML documents read one after another at token level are the Maps of the single-document decoder in order, nothing beyond a document is consumed, the bulk handler stops after the document on which the handler returned false, truncation gives the complete prefix and an error (C13_xml_*); adaptors and scanner compared with the model read by read; whole streams (XML, sequence XML, JSON; reader, Raw, bulk handler and Raw bulk handler forms) under random legal byte schedules and through a chunked io.Reader without ReadByte compared with direct decoding; one known finding (JSON raw white space)", "7 C13"),
 "C15": ("Lean theorems: the decoders' models are total and fail exactly when the token stream ends before the root closes, decoder output never reaches a panic site of the encoder models, and the REGENERATED list of potentially panicking source sites is contained in the reviewed table (C15_sites_covered, re-checked on every run); 17 decoder entry points on truncated/corrupted bytes and every string-argument API on hostile strings and odd Maps run in child processes (panic, stack overflow and hang detection)", "7 C15"),
 "C16": ("Lean theorems: equal Maps (any entry order at any depth) give byte-identical output (C16_perm_invariant, C16_mapXml_perm_invariant), sortByKey sorts and is order-independent on distinct keys; shuffled rebuilds with different capacities, repeated calls, attribute/sibling order read back, and every Writer / Raw / Maps string / file form compared with the byte-returning forms; the same for the indented Map encoder with no hypothesis and for the indented sequence encoder under distinct sequence numbers (C16_indent_*)", "7 C16"),
 "C17": ("partial: Lean facts theorem over the regenerated call graph - no read-only operation nor anything it reaches assigns a package-level variable (C17_readonly_no_global_write); Copy = JSON round trip returns the original Map (C17_copy_equal); in the read-only-sharing abstraction (steps read the shared state and write only their own locals) every schedule gives every goroutine its sequential result (C17_interleaving_independent, C17_concurrent_eq_sequential) - that Go calls have that shape rests on the facts theorem, the Go memory model and the dynamic checks: receiver deep-equal around every read-only operation incl. sub-key forms, results of every encoder unchanged by later calls, Copy scribble test, goroutine stress vs sequential results (under the race detector in the thorough tier)", "7 C17"),
 "C18": ("Lean theorems over the option state machine: explicit forms idempotent, argument-less forms as documented, escaping switches never both on, restore to the fresh state after ANY history with punctuation key prefixes (C18_restore), defaults = source initialisers (regenerated), only setters write globals, non-interference facts over the regenerated call graph; histories compared state by state with the implementation (hook dump), restore compared with a fresh process by a behavioural battery; the decoder configuration a state stands for is a state machine of its own, restored by restoring, and unaffected by encoder-side calls anywhere in a history (C18_cfg_*, C18_decoder_ignores_encoder_calls); option histories followed by a decode are compared with the decoder model configured from the option model's state (optdoc)", "7 C18"),
 "C19": ("Lean theorems for both file loops: what JsonFile writes is read back Map by Map, empty objects kept, truncation at any cut gives the complete prefix and an error (C19_json_*, composed from the scanner and decoder theorems); on the token stream of an XML file n documents with arbitrary separators are read back as the n Maps of the single-document decoder in order, a cut inside document k never closes and gives the first k Maps with the error, the handler form stops without reading further (C19_xml_*); both loops are compared with the implementation on whole files (xfile: real token stream; jfile: bytes; cuts and junk) + implementation oracles on scratch files: XML and JSON files (plain, indented, Raw readers), truncation at random offsets, gob (single and encode-all-then-decode-all) and Copy round trips", "7 C19"),
 "C20": ("Lean theorems: the wrapper's own walkers equal the core walker (with attributes) / the core walker with attribute entries skipped at wildcard steps (without), ValuesAtKeyPath characterised, shortest path order-independent; every exported legacy function called beside its documented core composition on generated inputs", "7 C20"),
 "C05": ("Lean theorems over the regenerated escape table: escapeChars is a single pass (C05_escape_single_pass), unescape(escape s) = s for every string, escaped text has no raw special character, every '&' opens one of the five entities, no ']]>', decoder-mode fixed point; escapeChars tied by correspondence (hook) and its output fed to the real tokenizer in element and attribute position; model of the tokenizer's entity expansion sampled against encoding/xml; encoder-level clauses (four encoders x escaping modes x validity check) by implementation oracles; encoder level: with escaping on every text and attribute value written by the compact and indented encoders is escapeChars of the value, hence free of raw specials and unescaping back to it (C05_enc_*)", "7 C05"),
 "C14": ("Lean theorems: the decision chain of cast branch by branch, never NaN/Inf unless CastNanInf for ANY strconv (C14_no_naninf), un-cast decoding yields only string leaves, decoding with the cast flag is related leaf-wise (CastRel) to decoding without it for every token stream (C14_structure); unit-level and document-level correspondence, exhaustive special spellings x option combinations", "7 C14"),
 "C07": ("Lean theorems: the walker and the look-ahead index wrapper return exactly the frontier denotation of a plain/wildcard/indexed path (C07_walk_is_denotation, C07_indexed_is_denotation, C07_path_is_denotation), ValueForPath/Exists consistency; model tied to keyvalues.go by correspondence, denotation also evaluated directly against the implementation", "7 C07"),
 "C08": ("Lean theorems: hasSubKeys is the documented predicate, sub-keys only filter, ValuesForKey = values stored under the key at any depth, PathsForKey = the distinct dot-paths ending in the key, shortest is minimal, values through the paths = ValuesForKey (on Maps without list-in-list); correspondence + direct oracles; one known finding (list directly inside list)", "7 C08"),
 "C09": ("Lean theorems: one leaf per scalar for any keys, LeafNodes = rendered segment paths (no-attribute view = attribute entries removed, text-key segment dropped), projections, every leaf path parses back and denotes exactly its value (C09_resolves_spec, through the C07 specification); correspondence + direct resolution oracle on the implementation", "7 C09"),
 "C10": ("Lean theorems over the functional model of UpdateValuesForPath (count zero leaves the Map untouched, count = written loci, frame, query agreement) + correspondence + implementation-only oracles (diff of the receiver before/after: only addressed entries under the key change, count agrees, ValuesForPath afterwards yields count copies)", "7 C10"),
 "C11": ("Lean theorems: SetValueForPath/Remove/RenameKey refine setPath/erasePath on nested-map paths, get/set/erase algebra with exact frame conditions, refusal to overwrite a sibling at any depth incl. top level, error cases; correspondence compares the whole receiver after every call (also after errors) + independent copy-and-edit oracle", "7 C11"),
 "C12": ("Lean theorems over the functional model of NewMap/addNewVal (fresh-path insertion, projection content for prefix-incomparable new paths, skipping, rejection of malformed pairs) + correspondence + implementation-only oracles (receiver deep-equal before/after for every pair list, exact projection content)", "7 C12"),
}
TECH = "Lean 4 theorems over a hand-written model + differential correspondence check against /repo"

# theorem files still being written (not claimed until they are complete and build)
PENDING = set(os.environ.get("VERIF_PENDING", "").split())

def have_props(pid):
    if pid in PENDING:
        return False
    return os.path.exists(os.path.join(V, "lean", "Mxj", "Props", pid + ".lean"))

checks = []
for p in props:
    pid = p["id"]
    if pid in claimed and have_props(pid):
        text, ref = claimed[pid]
        if os.path.exists(os.path.join(V, "lean", "Mxj", "Props", pid + "ExtFrame.lean")):
            text += ("; frame theorems over read/write sets regenerated from the source on every run (" + pid +
                     "_frame_reads, " + pid + "_frame_no_hidden_state): the property's API reads only its documented "
                     "options and assigns no package-level variable")
        checks.append({
            "property_id": pid,
            "quick_cmd": "./check %s quick" % pid,
            "thorough_cmd": "./check %s thorough" % pid,
            "evidence_file": "/verif/evidence/%s.json" % pid,
            "replay_cmd_template": "./check %s --replay {path}" % pid,
            "engine": "lean4-model+correspondence",
            "level_claimed": {"category": "proof", "text": text, "design_ref": ref},
            "level_note": NOTE,
            "technique": TECH,
        })
ids = [c["property_id"] for c in checks]
hooks = subprocess.run(["git", "-C", "/repo", "log", "--format=%h %s"], capture_output=True, text=True).stdout.split("\n")
hook_commits = [l.split()[0] for l in hooks if l and "verif hooks" in l]
m = {
 "version": 1,
 "setup_cmd": "./setup.sh",
 "hooks": {"guard": "verif",
           "enable": "go build -tags verif (the harness module replaces github.com/clbanning/mxj/v2 with /repo)",
           "baseline_off_cmd": "cd /repo && GOFLAGS=-mod=mod GOPROXY=off GOSUMDB=off GOTOOLCHAIN=local go test -vet=off -count=1 . ./j2x ./x2j ./x2j-wrapper",
           "source_commits": hook_commits, "add_only": True},
 "engines": [{"name": "lean4-model+correspondence", "path": "/verif/lean, /verif/harness, /verif/extract, /verif/check",
              "serves_properties": ids,
              "kind_free_text": "Lean 4 model + theorems (lake); Go differential harness built against /repo's working tree; go/ast fact extractor regenerating Lean facts; Python orchestrator"}],
 "checks": checks,
 "not_applicable": [{"property_id": p["id"], "reason": "not claimed yet: the Lean theorems and/or the correspondence harness for this property are still being built (DESIGN.md section 13); nothing about the technique makes it inapplicable"} for p in props if p["id"] not in ids],
 "notes": "see DESIGN.md; known findings in known_findings.txt",
}
json.dump(m, open(os.path.join(V, "MANIFEST.json"), "w"), indent=1)
print("claimed:", " ".join(ids))
