#!/usr/bin/env python3
"""mkcorpus.py [name-prefix ...] — for every seeded change: apply it, run the quick check of its property
(VERIF_SEED 1..6 until it reports a violation), and store the op line of the first replay as
corpus/<Cxx>/<seed>.case, so that the stored seed is detected deterministically from then on (the corpus
runs first in every check).  Seeds whose case file exists already are skipped.  Each seed is applied to a scratch worktree (VERIF_REPO), never to /repo."""
import json, os, re, subprocess, sys, glob
os.environ["VERIF_EVIDENCE_DIR"] = os.path.join(os.path.dirname(os.path.dirname(os.path.abspath(__file__))), ".build", "seed-evidence")
V = os.path.dirname(os.path.dirname(os.path.abspath(__file__)))
def sh(cmd, env=None):
    return subprocess.run(cmd, shell=True, capture_output=True, text=True, env=env)
WT = "/tmp/seedwt-%d" % os.getpid()
def wt_make(base="HEAD"):
    sh("git -C /repo worktree remove --force %s; rm -rf %s" % (WT, WT))
    return sh("git -C /repo worktree add -q --detach %s %s" % (WT, base)).returncode == 0
def wt_drop():
    import hashlib
    sh("git -C /repo worktree remove --force %s; rm -rf %s" % (WT, WT))
    h = hashlib.sha1(os.path.realpath(WT).encode()).hexdigest()[:10]
    for p in glob.glob(V + "/.build/*" + h + "*"):
        os.remove(p)
fixprop = {}
for l in open(V + "/known_findings.txt"):
    m = re.match(r"fixed: property=(C\d\d) (\w+)", l)
    if m:
        fixprop[m.group(2)[:7]] = m.group(1)
pref = sys.argv[1:]
for d in sorted(glob.glob(V + "/seeded/*/")):
    name = os.path.basename(d.rstrip("/"))
    if pref and not any(name.startswith(p) for p in pref):
        continue
    meta = {}
    try:
        meta = json.load(open(d + "meta.json"))
    except Exception:
        pass
    pid = meta.get("property") or fixprop.get(name[2:9])
    if isinstance(pid, list):
        pid = pid[0]
    if not pid or not os.path.exists(d + "patch.diff"):
        continue
    out = "%s/corpus/%s/%s.case" % (V, pid, name)
    if os.path.exists(out):
        continue
    if not wt_make(meta.get("base") or "HEAD") or sh("git -C %s apply --whitespace=nowarn %spatch.diff" % (WT, d)).returncode != 0:
        wt_drop(); print(name, "PATCH-DOES-NOT-APPLY"); continue
    got = None
    try:
        for seed in range(1, 7):
            env = dict(os.environ); env["VERIF_SEED"] = str(seed); env["VERIF_REPO"] = WT
            c = sh("cd %s && ./check %s quick" % (V, pid), env=env)
            vl = [l for l in c.stdout.split("\n") if l.startswith("VIOLATION")]
            if not vl:
                continue
            m = re.search(r"replay=(\S+)", vl[0])
            rp = m.group(1) if m else ""
            if rp.endswith(".case") and os.path.exists(rp):
                lines = [l for l in open(rp).read().split("\n") if l.strip()]
                ops = [l for l in lines if not l.startswith("//")]
                why = [l for l in lines if l.startswith("//")][:1]
                if ops and not ops[-1].startswith("implonly stress"):
                    got = (ops[-1], why[0] if why else "", seed); break
            elif rp.endswith(".json") and os.path.exists(rp):
                try:
                    j = json.load(open(rp))
                    dis = j.get("disagreements") or []
                    if dis:
                        got = (dis[0]["op"], "// correspondence: " + dis[0].get("reason", ""), seed); break
                except Exception:
                    pass
    finally:
        wt_drop()
    if got and len(got[0]) < 3000000:
        os.makedirs(os.path.dirname(out), exist_ok=True)
        with open(out, "w") as f:
            f.write("// regression input for the seeded change %s (found with VERIF_SEED=%d)\n%s\n%s\n" % (name, got[2], got[1][:300], got[0]))
        print(name, pid, "stored", len(got[0]), flush=True)
    else:
        print(name, pid, "NO-CASE", flush=True)
