#!/usr/bin/env python3
"""One-off helper that drafted lean/Mxj/Props/C15Sites.lean from the extractor's residue and the
reason rules below.  The Lean file is the hand-reviewed, committed table; this script is kept only
to document how the reasons were assigned."""
import json, re, sys
src = open('/verif/lean/Mxj/Generated/CallFacts.lean').read()
block = src[src.index('def panicSites'):]
block = block[:block.index('\n]')]
sites = re.findall(r'\("((?:[^"\\]|\\.)*)", "((?:[^"\\]|\\.)*)", "((?:[^"\\]|\\.)*)"\)', block)
VAR = "variadic argument read only under a `len(arg) == 1` (or 1-or-2) test in the same function"
SORT = "sort.Interface method: package sort passes indexes below Len()"
FILL = "counter bounded by the length the slice was allocated with (one slot per map entry / list member)"
rules = [
 (r'.*', r'index', r'^(b|cast|rootTag|safeEncoding|no_attr|offset|getAttrs|recast|s)\[0\]$', VAR),
 (r'^AnyXml', r'index', r'^tags\[[01]\]$', VAR),
 (r'\.(Less|Swap)$', r'.*', r'.*\[(i|j)\].*', SORT),
 (r'elemList\.Less', r'assert', r'.*', "keys were stored as strings by marshalMapToXmlIndent two lines above the sort"),
 (r'elemListSeq\.Less', r'assert', r'.*', "every entry the sequence decoder produces is a map carrying #seq (seqChild wraps scalars); hand-built MapSeqs with scalar children are outside C15"),
 (r'.*', r'index|slice', r'^(attrs|elems|ss|vv|res|list|c|kv|attrlist|elemlist)\[:?(i|n)\]$', FILL),
 (r'.*', r'slice', r'^(ret|ivals)\[:cnt\]$', "cnt counts the appends made to this very slice"),
 (r'.*', r'index', r'^vals\[0\]$', "read after the `len(vals) == 0` early return"),
 (r'.*', r'index', r'^paths\[0\]$', "read after the `lp == 0` early return"),
 (r'.*', r'index|slice', r'^(path|keys|pathAry)\[len\((path|keys|pathAry)\) ?- ?1\]$|^(path|keys|pathAry)\[(0 ?: ?|:)len\((path|keys|pathAry)\) ?- ?1\]$', "strings.Split returns at least one element"),
 (r'Map\.NewMap|getSubKeyMap|Map\.UpdateValuesForPath', r'index', r'^(vv|ss)\[[012]\]$', "index below the length tested by the surrounding `switch len(..)` / `n < 2 || n > 3` guard"),
 (r'Map\.UpdateValuesForPath', r'assert', r'.*', "inside `case map[string]interface{}, Map:` after the Map value was converted with Old()"),
 (r'addNewVal', r'assert', r'.*', "m[k] was assigned a value of exactly this type on the previous line, or the assertion sits in the matching case of `switch m[k].(type)`"),
 (r'addNewVal', r'index', r'^val\[0\]$', "under `len(val) == 1`"),
 (r'.*', r'deref', r'^\*(n|l|cnt|ret|mr)$', "pointer created by the only callers with & / new"),
 (r'NewMapJsonReader', r'deref', r'^\*jb$', "getJson returns a non-nil buffer on every path (repaired F-JSON-NILRAW; C13 correspondence)"),
 (r'MapSeq\.Xml', r'deref', r'^\*s$', "s := new(string) in the same function"),
 (r'SetGlobalKeyMapPrefix', r'slice', r'.*', "option setter (outside C15): the key constants stay non-empty for every non-empty prefix (C18 invariant KeysOK)"),
 (r'NewMapJson', r'index', r'^lead\[0\]$', "under `len(lead) > 0` in the same condition"),
 (r'cast', r'slice', r'^s\[:1\]$', "under `len(s) > 0 && len(s) < 6`"),
 (r'hasSubKeys', r'slice', r'^skey\[1:\]$', "under strings.HasPrefix(skey, \"!\") (repaired F-SUBKEY-EMPTY)"),
 (r'isAttrOrTextKey|marshalMapToXmlIndent|Map\.Attributes', r'slice', r'^k\[(:lenAttrPrefix|lenAttrPrefix:|len\(attrPrefix\):)\]$', "under `lenAttrPrefix < len(k)` / after strings.Index(k, attrPrefix) == 0"),
 (r'marshalMapToXmlIndent', r'assert', r'^v\[0\]\.\(string\)$', "v ranges over elemlist whose first components were stored as strings"),
 (r'mapToXmlSeqIndent', r'assert', r'.*', "decoder-produced comment/directive/procinst/attribute entries hold strings / maps by construction (C04 model seqElem); hand-built MapSeqs are outside C15"),
 (r'parsePath', r'index', r'^p\[[01]\]$', "p = strings.Split(x, \"[\") after strings.Index(x, \"[\") >= 0, so len(p) >= 2; the second Split has at least one element"),
 (r'pretty\.Outdent', r'slice', r'.*', "under `p.cnt > 0`: every Indent appended len(p.indent) bytes to padding"),
 (r'prevValueByPath|updateValuesForKeyPath|valuesForKeyPath', r'index|slice', r'^keys\[0\]$|^keys\[1:\]$', "keys is non-empty here: strings.Split result, or the `lenKeys == 0` / `len(keys) == 1` case returned earlier"),
 (r'valuesForKeyPath', r'index', r'.*\[i\]$', "i ranges over the same slice"),
 (r'valuesForArray', r'index|slice', r'^keys\[i( ?\+ ?1)?\]$|^keys\[i\+1:\]$', "loop condition i <= lastkey and the `i < lastkey` test in the same condition"),
 (r'valuesForArray', r'slice', r'^vals\[keys\[i\]\.position.*', "after the `len(vals) <= keys[i].position` range check; position is non-negative (repaired F-IDX-NEG)"),
 (r'valuesForArray', r'index', r'^am\[0\]$', "am is a one-element slice taken after the range check"),
 (r'byteReader\.ReadByte|teeReader\.ReadByte|getJson', r'index|slice', r'^(b\.b|t\.b|bval)\[(0|:1)\]$', "one-byte buffer allocated with make([]byte, 1)"),
 (r'copyValue', r'index', r'^c\[i\]$', "i ranges over vv and c was made with len(vv)"),
 (r'lastKey|parentPath', r'index|slice', r'.*', "strings.Split returns at least one element"),
 (r'Map\.Elements|Map\.Attributes', r'index', r'.*', FILL),
 (r'mapToXmlSeqIndent', r'index', r'^kv\[n\]$', FILL),
 (r'writeMap', r'index', r'^list\[n\]$', FILL),
]
out = []
missing = []
for fn, kind, expr in sites:
    e = expr.replace('\\"', '"')
    why = None
    for rf, rk, re_, reason in rules:
        if re.search(rf, fn) and re.fullmatch(rk, kind) and re.search(re_, e):
            why = reason
            break
    if why is None:
        missing.append((fn, kind, expr))
    out.append((fn, kind, expr, why or "TODO"))
if missing:
    print("UNMATCHED:", *missing, sep="\n  ")
def q(s): return '"' + s.replace('\\', '\\\\').replace('"', '\\"') + '"' if '\\' not in s else '"' + s + '"'
with open('/verif/lean/Mxj/Props/C15Sites.lean', 'w') as f:
    f.write('''/-
  Mxj.Props.C15Sites — the hand-reviewed table of potentially panicking sites (index / slice
  expressions on slices and strings, single-value type assertions, pointer dereferences) that
  remain after the extractor's syntactic guards, each with the reason it cannot fail on the
  inputs C15 quantifies over.  `C15_sites_covered` (Props/C15.lean) checks on every run that the
  REGENERATED residue `Generated.panicSites` is contained in this table: a new unguarded site in
  the Go source breaks the obligation.
-/
namespace Mxj.C15

/-- (function, kind, expression, why it cannot panic) -/
def justified : List (String × String × String × String) := [
''')
    for i, (fn, kind, expr, why) in enumerate(out):
        sep = "," if i < len(out) - 1 else ""
        f.write('  ("%s", "%s", "%s",\n    "%s")%s\n' % (fn, kind, expr, why.replace('\\', '\\\\').replace('"', '\\"'), sep))
    f.write(''']

end Mxj.C15
''')
print(len(out), "sites,", len(missing), "unmatched")
