#!/bin/bash
# verifyseed.sh <dir with patch.diff DEMO_test.go meta.json> <name>
# Confirms in a fresh scratch worktree: patch applies, builds, unedited suite passes, demo fails with the
# change and passes without it.  Removes the worktree afterwards.
export GOFLAGS=-mod=mod GOPROXY=off GOSUMDB=off GOTOOLCHAIN=local
src=$1; name=$2; wt=/tmp/sv-$name
git -C /repo worktree remove --force $wt 2>/dev/null; rm -rf $wt
git -C /repo worktree add -q --detach $wt HEAD || exit 2
cd $wt
demodir=.
grep -q '^package x2j' $src/DEMO_test.go && demodir=x2j-wrapper
grep -q "^package j2x" $src/DEMO_test.go && demodir=j2x
md=$(python3 -c "import json,sys; print(json.load(open(sys.argv[1])).get('demo_dir',''))" $src/meta.json 2>/dev/null)
[ -n "$md" ] && [ -d "$md" ] && demodir=$md
[ -n "$DEMODIR" ] && demodir=$DEMODIR
res=""
git apply --whitespace=nowarn $src/patch.diff && res="$res applies" || res="$res APPLY-FAIL"
go build . ./j2x ./x2j ./x2j-wrapper && res="$res builds" || res="$res BUILD-FAIL"
if go test -vet=off -count=1 . ./j2x ./x2j ./x2j-wrapper >/tmp/sv-$name.log 2>&1; then res="$res suite-ok"; else res="$res SUITE-FAIL"; fi
git status --porcelain | grep -v '^ M' | head -3
cp $src/DEMO_test.go $demodir/zz_demo_test.go
if go test -vet=off -count=1 -run 'TestSeedDemo' ./$demodir >/tmp/sv-$name.demo1 2>&1; then res="$res DEMO-PASSES-WITH-CHANGE"; else res="$res demo-fails-with"; fi
git apply -R --whitespace=nowarn $src/patch.diff
if go test -vet=off -count=1 -run 'TestSeedDemo' ./$demodir >/tmp/sv-$name.demo2 2>&1; then res="$res demo-passes-without"; else res="$res DEMO-FAILS-WITHOUT"; fi
cd /; git -C /repo worktree remove --force $wt; rm -rf $wt /tmp/sv-$name.log /tmp/sv-$name.demo1 /tmp/sv-$name.demo2
echo "$name:$res"
