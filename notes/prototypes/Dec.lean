-- Round-0 prototype (reference only): fuel-indexed token-stream parser in the style of
-- xmlToMapParser refines a tree-recursive fold, for every tree (first theorem of C01).
namespace D

inductive Val where
  | str (s : String)
  | list (xs : List Val)
  | map (kvs : List (String × Val))
  deriving Repr, Inhabited

inductive Tok where
  | start (name : String) (attrs : List (String × String))
  | stop
  | text (s : String)
  deriving Repr

inductive Tree where
  | elem (name : String) (attrs : List (String × String)) (kids : List (Sum Tree String))

mutual
def flatten : Tree → List Tok
  | .elem n as ks => Tok.start n as :: (flattenKids ks ++ [Tok.stop])
def flattenKids : List (Sum Tree String) → List Tok
  | [] => []
  | .inl t :: ks => flatten t ++ flattenKids ks
  | .inr s :: ks => Tok.text s :: flattenKids ks
end

abbrev AList := List (String × Val)

def aset (k : String) (v : Val) : AList → AList
  | [] => [(k, v)]
  | (k', v') :: r => if k = k' then (k, v) :: r else (k', v') :: aset k v r

def alookup (k : String) : AList → Option Val
  | [] => none
  | (k', v) :: r => if k = k' then some v else alookup k r

def addChild (na : AList) (k : String) (v : Val) : AList :=
  match alookup k na with
  | some (.list xs) => aset k (.list (xs ++ [v])) na
  | some old => aset k (.list [old, v]) na
  | none => aset k v na

structure Cfg where
  prefix_ : String := "-"
  asMap : Bool := false
  textK : String := "#text"
  trim : String → String := fun s => s.trimAscii.toString

def attrsToNa (c : Cfg) (as : List (String × String)) : AList :=
  as.foldl (fun na (k, v) => aset (c.prefix_ ++ k) (.str v) na) []

def finish (c : Cfg) (na : AList) (n : Option String) : Val :=
  match n with
  | none => if na.isEmpty then .str "" else .map na
  | some s => if na.isEmpty then .str s else .map (aset c.textK (.str s) na)

def onText (c : Cfg) (st : AList × Option String) (s : String) : AList × Option String :=
  let tt := c.trim s
  if tt = "" then st
  else if !st.1.isEmpty || c.asMap then (aset c.textK (.str tt) st.1, st.2)
  else (st.1, some tt)

def parse (c : Cfg) : Nat → (AList × Option String) → List Tok → Option (Val × List Tok)
  | 0, _, _ => none
  | _, _, [] => none
  | f+1, st, .start n as :: rest =>
      match parse c f (attrsToNa c as, none) rest with
      | some (v, rest') => parse c f (addChild st.1 n v, st.2) rest'
      | none => none
  | _+1, st, .stop :: rest => some (finish c st.1 st.2, rest)
  | f+1, st, .text s :: rest => parse c f (onText c st s) rest

mutual
def spec (c : Cfg) : Tree → Val
  | .elem _ as ks => let st := specKids c (attrsToNa c as, none) ks; finish c st.1 st.2
def specKids (c : Cfg) : (AList × Option String) → List (Sum Tree String) → (AList × Option String)
  | st, [] => st
  | st, .inl t :: ks => specKids c (addChild st.1 (match t with | .elem n _ _ => n) (spec c t), st.2) ks
  | st, .inr s :: ks => specKids c (onText c st s) ks
end

theorem parse_mono (c : Cfg) : ∀ f st toks r, parse c f st toks = some r → parse c (f+1) st toks = some r := by
  intro f
  induction f with
  | zero => intro st toks r h; simp [parse] at h
  | succ f ih =>
    intro st toks r h
    match toks with
    | [] => simp [parse] at h
    | .stop :: rest => simpa [parse] using h
    | .text s :: rest =>
      simp only [parse] at h ⊢
      exact ih _ _ _ h
    | .start n as :: rest =>
      simp only [parse] at h ⊢
      cases hp : parse c f (attrsToNa c as, none) rest with
      | none => simp [hp] at h
      | some p =>
        obtain ⟨v, rest'⟩ := p
        simp only [hp] at h
        rw [ih _ _ _ hp]
        exact ih _ _ _ h

theorem parse_mono_le (c : Cfg) {f g : Nat} (hfg : f ≤ g) {st toks r} (h : parse c f st toks = some r) :
    parse c g st toks = some r := by
  induction hfg with
  | refl => exact h
  | step _ ih => exact parse_mono c _ _ _ _ ih

mutual
theorem parse_tree (c : Cfg) : ∀ (t : Tree) (rest : List Tok),
    ∃ f, (match t with
       | .elem _ as ks => parse c f (attrsToNa c as, none) (flattenKids ks ++ Tok.stop :: rest)) = some (spec c t, rest)
  | .elem n as ks, rest => by
      obtain ⟨f, hf⟩ := parse_kids c ks rest (attrsToNa c as, none)
      exact ⟨f, by simpa [spec] using hf⟩
theorem parse_kids (c : Cfg) : ∀ (ks : List (Sum Tree String)) (rest : List Tok) (st : AList × Option String),
    ∃ f, parse c f st (flattenKids ks ++ Tok.stop :: rest) =
      some (finish c (specKids c st ks).1 (specKids c st ks).2, rest)
  | [], rest, st => ⟨1, by simp [flattenKids, parse, specKids]⟩
  | .inr s :: ks, rest, st => by
      obtain ⟨f, hf⟩ := parse_kids c ks rest (onText c st s)
      exact ⟨f+1, by simp [flattenKids, parse, specKids, hf]⟩
  | .inl (.elem n as ks') :: ks, rest, st => by
      obtain ⟨f1, h1⟩ := parse_tree c (.elem n as ks') (flattenKids ks ++ Tok.stop :: rest)
      obtain ⟨f2, h2⟩ := parse_kids c ks rest (addChild st.1 n (spec c (.elem n as ks')), st.2)
      refine ⟨max f1 f2 + 1, ?_⟩
      have h1' := parse_mono_le c (Nat.le_max_left f1 f2) h1
      have h2' := parse_mono_le c (Nat.le_max_right f1 f2) h2
      simp only [flattenKids, flatten, List.cons_append, List.append_assoc, parse, List.nil_append]
      rw [h1']
      simpa [specKids] using h2'
end

theorem decode_flatten (c : Cfg) (t : Tree) (rest : List Tok) :
    ∃ f, (match flatten t with
          | .start _ as :: toks => parse c f (attrsToNa c as, none) (toks ++ rest)
          | _ => none) = some (spec c t, rest) := by
  cases t with
  | elem n as ks =>
    obtain ⟨f, hf⟩ := parse_tree c (.elem n as ks) rest
    exact ⟨f, by simpa [flatten] using hf⟩

#print axioms decode_flatten
end D
