-- Round-0 prototype (reference only, not part of the framework):
-- nested inductive Val, mutual structural recursion, and
-- "recursive walk = frontier semantics" for the plain-key fragment of ValuesForPath (C07).
namespace M

inductive Val where
  | null
  | bool (b : Bool)
  | num (t : String)
  | str (s : String)
  | list (xs : List Val)
  | map (kvs : List (String × Val))
  deriving Repr, Inhabited

def lookup (k : String) : List (String × Val) → Option Val
  | [] => none
  | (k', v) :: rest => if k = k' then some v else lookup k rest

mutual
def leaves : Val → List Val
  | .list xs => leavesList xs
  | .map kvs => leavesKvs kvs
  | v => [v]
def leavesList : List Val → List Val
  | [] => []
  | x :: xs => leaves x ++ leavesList xs
def leavesKvs : List (String × Val) → List Val
  | [] => []
  | (_, v) :: rest => leaves v ++ leavesKvs rest
end

def expand : Val → List Val
  | .list xs => xs
  | v => [v]

def vfp : Val → List String → List Val
  | m, [] => expand m
  | .map kvs, k :: ks => match lookup k kvs with
      | some v => vfp v ks
      | none => []
  | .list xs, k :: ks => xs.flatMap fun x => match x with
      | .map kvs => match lookup k kvs with
          | some v => vfp v ks
          | none => []
      | _ => []
  | _, _ :: _ => []
termination_by _ ks => ks.length
decreasing_by all_goals simp_wf <;> omega

def stepKey (k : String) (v : Val) : List Val :=
  match v with
  | .map kvs => (lookup k kvs).toList
  | .list xs => xs.flatMap fun x => match x with
      | .map kvs => (lookup k kvs).toList
      | _ => []
  | _ => []

def denote (ks : List String) (front : List Val) : List Val :=
  match ks with
  | [] => front.flatMap expand
  | k :: ks => denote ks (front.flatMap (stepKey k))

theorem vfp_step (k : String) (ks : List String) (m : Val) :
    vfp m (k :: ks) = (stepKey k m).flatMap (fun v => vfp v ks) := by
  cases m with
  | map kvs =>
    simp only [vfp, stepKey]
    cases lookup k kvs <;> simp
  | list xs =>
    simp only [vfp, stepKey, List.flatMap_assoc]
    congr 1; funext x
    cases x with
    | map kvs => simp only []; cases lookup k kvs <;> simp
    | _ => simp
  | _ => simp [vfp, stepKey]

theorem vfp_front (ks : List String) : ∀ front : List Val,
    front.flatMap (fun m => vfp m ks) = denote ks front := by
  induction ks with
  | nil => intro front; simp [vfp, denote]
  | cons k ks ih =>
    intro front
    simp only [denote, ← ih, vfp_step, List.flatMap_assoc]

theorem vfp_eq_denote (ks : List String) (m : Val) : vfp m ks = denote ks [m] := by
  simpa using vfp_front ks [m]

-- sort lemmas needed for C04/C16 are in core:
example (l₁ l₂ : List Nat) (h : l₁.Perm l₂) (h1 : l₁.Pairwise (· ≤ ·)) (h2 : l₂.Pairwise (· ≤ ·)) : l₁ = l₂ :=
  List.Perm.eq_of_pairwise (fun _ _ _ _ hab hba => Nat.le_antisymm hab hba) h1 h2 h
#check @List.mergeSort_perm
#check @List.pairwise_mergeSort
#print axioms vfp_eq_denote
end M
