-- Round-0 prototype (reference only): escapeChars (sequential replace, '&' first) is a
-- single-pass map, and entity expansion inverts it for every string (core of C05).
-- Lesson: match entities by prefix test, not by long Char patterns (simp times out).
namespace E

def rep (c : Char) (r : List Char) (s : List Char) : List Char :=
  s.flatMap fun ch => if ch = c then r else [ch]

def escapeChars (s : List Char) : List Char :=
  rep '\'' "&apos;".toList (rep '"' "&quot;".toList (rep '>' "&gt;".toList (rep '<' "&lt;".toList (rep '&' "&amp;".toList s))))

def escOne (c : Char) : List Char :=
  if c = '&' then "&amp;".toList else if c = '<' then "&lt;".toList else if c = '>' then "&gt;".toList
  else if c = '"' then "&quot;".toList else if c = '\'' then "&apos;".toList else [c]

theorem escapeChars_cons (c : Char) (s : List Char) : escapeChars (c :: s) = escOne c ++ escapeChars s := by
  have h : ∀ c r (x : Char) (xs : List Char), rep c r (x :: xs) = (if x = c then r else [x]) ++ rep c r xs := by
    intro c r x xs; simp [rep]
  unfold escapeChars escOne
  by_cases h1 : c = '&'
  · subst h1; simp [h]
  · by_cases h2 : c = '<'
    · subst h2; simp [h]
    · by_cases h3 : c = '>'
      · subst h3; simp [h]
      · by_cases h4 : c = '"'
        · subst h4; simp [h]
        · by_cases h5 : c = '\''
          · subst h5; simp [h]
          · simp [h, h1, h2, h3, h4, h5]

theorem escapeChars_eq (s : List Char) : escapeChars s = s.flatMap escOne := by
  induction s with
  | nil => simp [escapeChars, rep]
  | cons c s ih => rw [escapeChars_cons, ih]; simp

def ents : List (List Char × Char) :=
  [("&amp;".toList, '&'), ("&lt;".toList, '<'), ("&gt;".toList, '>'), ("&quot;".toList, '"'), ("&apos;".toList, '\'')]

def matchEnt (s : List Char) : Option (Char × List Char) :=
  ents.findSome? fun (p, c) => if p.isPrefixOf s then some (c, s.drop p.length) else none

def unescapeF : Nat → List Char → Option (List Char)
  | _, [] => some []
  | 0, _ => none
  | f+1, c :: r =>
    if c = '&' then
      match matchEnt (c :: r) with
      | some (d, rest) => (unescapeF f rest).map (d :: ·)
      | none => none
    else if c = '<' then none
    else (unescapeF f r).map (c :: ·)

def special (c : Char) : Bool := c = '&' || c = '<' || c = '>' || c = '"' || c = '\''

theorem escOne_plain {c : Char} (h : special c = false) : escOne c = [c] := by
  simp [special] at h; simp [escOne, h]

theorem escOne_special {c : Char} (h : special c = true) (rest : List Char) :
    ∃ t, escOne c ++ rest = '&' :: t ∧ matchEnt (escOne c ++ rest) = some (c, rest) := by
  simp [special] at h
  rcases h with (((h | h) | h) | h) | h <;> subst h <;>
    exact ⟨_, rfl, by simp [escOne, matchEnt, ents, List.findSome?]⟩

theorem unescape_escape_aux (s : List Char) : ∃ f, unescapeF f (s.flatMap escOne) = some s := by
  induction s with
  | nil => exact ⟨0, by simp [unescapeF]⟩
  | cons c s ih =>
    obtain ⟨f, hf⟩ := ih
    simp only [List.flatMap_cons]
    cases hs : special c with
    | false =>
      refine ⟨f+1, ?_⟩
      have hc : c ≠ '&' ∧ c ≠ '<' := by simp [special] at hs; exact ⟨hs.1.1.1.1, hs.1.1.1.2⟩
      rw [escOne_plain hs]
      simp [unescapeF, hc.1, hc.2, hf]
    | true =>
      obtain ⟨t, ht, hm⟩ := escOne_special hs (s.flatMap escOne)
      refine ⟨f+1, ?_⟩
      rw [ht] at hm ⊢
      simp [unescapeF, hm, hf]

theorem unescape_escape (s : List Char) : ∃ f, unescapeF f (escapeChars s) = some s := by
  rw [escapeChars_eq]; exact unescape_escape_aux s

#print axioms unescape_escape
end E
